"""C13: bounded and in-place string helpers stay inside their buffers and are exact (spec/StrHelpers.tla)."""
from vlib import build, x_c12
from vlib.core import tok, Broken

PROPERTY = "C13"
LEVEL = "model_checking"
LEVEL_TEXT = ("TLC enumerates every (size 1..7, source <= 5, destination prefix <= 5) triple for safe_strncpy/safe_strncat, every "
              "(text, idx, cnt) with idx, cnt in -7..7 for substr and every byte string up to length 6 over {a, Z, space, tab, 0x01, 0xE9} "
              "for chomp, condense_whitespace, downcase/upcase, safe_str and strrev (quick: sizes <= 6, lengths <= 4/5, -5..5), checks the "
              "postconditions of the reference (NUL-terminated, longest prefix, TRUE iff nothing cut, never longer, touched bytes within "
              "bounds, slice laws, idempotence) and emits every tuple with its expected result; each is executed on the real function in an "
              "ASan build with the destination inside an exact-size heap block between two 16-byte guard zones, in-place strings in "
              "exact-size blocks, and buffer contents, return values and guard zones compared. Families beyond the small universe, evaluated "
              "by the same TLC operators from a file: every ordered pair of byte values 1..255 at every offset mod 8 in buffers of 9..24 bytes, "
              "size sweeps n-1, n, n+1 for n = 8..1024 (and every length 120..160, 248..272; thorough 56..300) at all 8 start alignments, copies "
              "and slices at sizes up to 4096, every byte value as first / inner / last byte; each call after an adversarial prelude at the same "
              "address (different content, errno preset). "
              "Every case is executed at each run-time debug level of the specification's DebugLevels (0, 1, 3, 5) with identical results required; "
              "extreme integer arguments (INT_MAX, INT_MAX-k, INT_MIN, INT_MIN+k, 2^30, 2^15/2^16 neighbours) of substr and of the declared copy size "
              "are crossed with small non-zero values of the other parameters; safe_strncpy with source and destination in the same buffer (dst == src, "
              "src = dst + k) is a family of the model.")
LEVEL_NOTE = ("Exhaustive only within those bounds and alphabets. safe_strncat with a destination that holds no NUL within size bytes is run "
              "for memory safety only (value not claimed); safe_str is claimed for n <= strlen. condense_whitespace keeping one leading blank "
              "is taken as the as-built convention. Memory safety = no ASan report and intact guard zones on what was executed. Trusted: TLC, "
              "ASan, harness/strhelpers_replay.c.")
TECHNIQUE = "TLA+ reference operators + TLC exhaustive argument enumeration replayed on the implementation"
DESIGN_REF = "DESIGN.md section 6 C13"
ACTIONS = ["EvalCopy", "EvalSubstr", "EvalInPlace", "EvalAlias"]
SAMPLE_ARGS = [("copy", [4, [97, 90, 97, 97], [90, 0, 126, 126]]), ("copy", [3, [97], [90, 97, 90]]), ("substr", [[97, 98, 99, 100, 101], -3, 2]),
               ("substr", [[97, 98, 99], 1, -5]), ("inplace", [[32, 97, 9, 233, 32]]), ("inplace", [[9, 1, 32, 32, 90]])]


def harness(ctx):
    libdir, cflags = build.build_lib(ctx.repo)
    return build.build_harness("strhelpers_replay", ["strhelpers_replay.c"], libdir, cflags)


def sclass(s):
    if not s:
        return "empty"
    ws = [c in (32, 9, 10, 11, 12, 13) for c in s]
    if all(ws):
        return "all-blank"
    f = []
    if ws[0]:
        f.append("lead-blank")
    if ws[-1]:
        f.append("trail-blank")
    if any(c > 127 for c in s):
        f.append("high-bit")
    return ",".join(f) or "text"


def keyfn(c, at, f):
    op, args, exp, meta = c.steps[at]
    return "%s [%s] %s" % (op, meta, x_c12.fail_class(f))


def mk_case(sid, r):
    op, a, e = r["op"], r["args"], r["exp"]
    if op == "copy":
        size, src, b0 = a
        pre = b0.index(0) if 0 in b0 else size
        room = size - 1 - pre
        cls_cpy = "src<size-1" if len(src) < size - 1 else ("src=size-1" if len(src) == size - 1 else "src>size-1")
        cls_cat = "unterminated-dest" if pre >= size else ("fits" if len(src) < room else ("fits-exactly" if len(src) == room else "cut"))
        cat_exp = tok({"buf": e["cat"]["result"], "ret": e["cat"]["ret"]}) if e["cat"]["claimed"] else "*"
        steps = [("strncpy", [str(size), tok(src), tok(b0)], tok({"buf": e["cpy"]["result"], "ret": e["cpy"]["ret"]}), cls_cpy),
                 ("strncat", [str(size), tok(src), tok(b0)], cat_exp, cls_cat)]
    elif op == "alias":
        size, k, m = a
        L = m.index(0)
        cls = "%s,%s" % ("dst=src" if k == 0 else "src-inside-dst-buffer", "cut" if L - k >= size else "fits")
        steps = [("strncpy_alias", [str(size), str(k), tok(m)], tok({"buf": e["result"], "ret": e["ret"]}), cls)]
    elif op == "substr":
        s, idx, cnt = a
        n = len(s)
        st = n + idx if idx < 0 else idx
        cls = ("empty," if n == 0 else "") + ("idx<0," if idx < 0 else "") + ("start-out" if st < 0 or st >= n else "start-in") + \
              ("" if cnt > 0 else (",cnt=0" if cnt == 0 else (",cnt<0-beyond" if 0 <= st < n and n - st + cnt < 0 else ",cnt<0"))) + \
              (",cnt>rest" if cnt > 0 and 0 <= st < n and cnt > n - st else "")
        steps = [("substr", [tok(s), str(idx), str(cnt)], tok(e["result"]) if e["ok"] else "-", cls)]
    else:
        s = a[0]
        cls = sclass(s)
        steps = [(k, [tok(s)], tok(e[k]), cls) for k in ("chomp", "condense", "down", "up", "rev", "safe")]
    return x_c12.Case(sid, steps, {"op": op, "args": a})


# ---- families beyond the small exhaustive universe (evaluated by the same TLC operators through StrHelpersFile.tla) -------------
SWEEP = (8, 16, 32, 64, 128, 256, 512, 1024)


def euler_bytes():
    """A sequence over the byte values 1..255 in which every ordered pair (x, y), x = y included, is adjacent exactly once
    (Eulerian circuit of the complete digraph with loops, Hierholzer)."""
    n = 255
    nxt = [0] * (n + 1)            # next unused successor index per node
    stack, out = [1], []
    while stack:
        v = stack[-1]
        if nxt[v] < n:
            w = (v - 1 + nxt[v]) % n + 1 if nxt[v] else v      # the loop first, then the others in rotating order
            nxt[v] += 1
            stack.append(w)
        else:
            out.append(stack.pop())
    out.reverse()
    return out


def family_texts(rnd, tier):
    """[(text, alignments, family-name)]"""
    fam = []
    # (1) every ordered pair of byte values at every offset mod 8, in buffers of 9..24 bytes
    eu = euler_bytes()
    assert len(eu) == 255 * 255 + 1 and len(set(zip(eu, eu[1:]))) == 255 * 255
    stride = 16 if tier == "quick" else 8
    lens = list(range(stride + 1, 25))
    for k in range(8):
        seq = [65 + k] * k + eu
        j = 0
        for w in range(0, len(seq) - 1, stride):
            L = lens[j % len(lens)]
            j += 1
            txt = seq[w:w + L]
            if len(txt) >= 2:
                fam.append((txt, (k,), "byte-pairs"))
    # (2) size sweep: lengths n-1, n, n+1 around the powers of two, and every length of a window behind the usual thresholds
    #     (all residues mod 16), at all 8 start alignments
    sizes = set()
    for n in SWEEP:
        sizes.update((n - 1, n, n + 1))
    sizes.update(range(120, 161))
    sizes.update(range(248, 273))
    if tier != "quick":
        sizes.update(range(56, 120))
        sizes.update(range(161, 301))
        sizes.update(range(500, 530))
        sizes.update((65534, 65535, 65536))       # the unsigned short count of safe_str (n = 65535) and its neighbours
    pop = [32] * 6 + [9, 10] + list(range(33, 127)) * 2 + [1, 31, 127, 128, 200, 233, 255]
    for L in sorted(sizes):
        t = [rnd.choice(pop) for _ in range(L)]
        if L % 3 == 0:
            t[0] = 32
        if L % 4 == 0:
            t[-1] = 9
        fam.append((t, tuple(range(8)) if L < 60000 else (0, 3), "size-sweep"))
    # (3) every byte value 1..255 as first, inner and last byte
    for b in range(1, 256):
        fam.append(([b, 97, 32, b, 32, 98, b], (0, b % 8), "byte-values"))
    return fam


def family_copies():
    """size sweep for the bounded copies and substr"""
    out = []
    for n in SWEEP + (127, 129, 4096):
        for sl in (n - 2, n - 1, n, n + 1):
            for pl in (0, 1, n // 2, n - 1, n):
                if sl >= 0:
                    out.append({"k": "copy", "size": n, "src": [97 + (i % 26) for i in range(sl)], "pre": [65 + (i % 26) for i in range(pl)]})
        s = [48 + (i % 75) for i in range(n)]
        for idx in (0, 1, -1, n - 1, -n, n, -n - 1, n // 2):
            for cnt in (1, n, n + 1, 0, -1, -n, -n - 1, n // 2):
                out.append({"k": "substr", "s": s, "idx": idx, "cnt": cnt})
    return out


INT_MAX, INT_MIN = 2 ** 31 - 1, -2 ** 31
# extreme values of a 32-bit integer parameter (round-4 class 1): both ends, their neighbourhoods, the 2^15 / 2^16 / 2^30 thresholds
EXTREME32 = (INT_MAX, INT_MAX - 1, INT_MAX - 7, 2 ** 30, 65537, 65536, 65535, 32768, 32767,
             INT_MIN, INT_MIN + 1, INT_MIN + 7, -2 ** 30, -65535, -65536, -65537, -32768)


def family_extremes():
    """every integer parameter at its extreme values, crossed with small NON-ZERO values of the other integer parameters and a few
    object sizes"""
    out = []
    for n in (3, 16, 300):
        s = [48 + (i % 75) for i in range(n)]
        small_idx = sorted({1, 2, -1, -2, n - 1, -(n - 1), 0, n // 2})
        small_cnt = sorted({1, 2, -1, -2, 0, n, n - 1})
        for idx in small_idx:
            for cnt in EXTREME32:
                out.append({"k": "substr", "s": s, "idx": idx, "cnt": cnt})
        for idx in EXTREME32:
            for cnt in small_cnt:
                out.append({"k": "substr", "s": s, "idx": idx, "cnt": cnt})
            out.append({"k": "substr", "s": s, "idx": idx, "cnt": idx})
            out.append({"k": "substr", "s": s, "idx": idx, "cnt": -idx if idx != INT_MIN else INT_MAX})
    # declared destination sizes far beyond what is written (the reference's class "roomy")
    for size in [e for e in EXTREME32 if e > 0]:
        for sl in (0, 1, 5, 40):
            for pl in (0, 1, 7):
                out.append({"k": "roomy", "size": size, "src": [97 + (i % 26) for i in range(sl)], "pre": [65 + (i % 26) for i in range(pl)]})
    # source and destination in the same buffer, at the sizes of the sweep
    for n in SWEEP + (127, 129):
        for L in (n - 2, n - 1, n, n + 1, 2 * n):
            for k in sorted({0, 1, 7, 8, L // 2}):
                if 0 <= k <= L:
                    out.append({"k": "alias", "s": [33 + (i % 90) for i in range(L)], "off": k, "size": n})
    return out


def families(ctx, exe):
    import json, os, random
    rnd = random.Random(ctx.seed)
    texts = family_texts(rnd, ctx.tier)
    rows = [{"k": "inplace", "s": t} for t, _, _ in texts] + family_copies() + family_extremes()
    path = os.path.join(ctx.rundir, "cases.ndjson")
    with open(path, "w") as f:
        for r in rows:
            f.write(json.dumps(r, separators=(",", ":")) + "\n")
    cs = x_c12.CaseStream(ctx, exe, [], keyfn, "families")
    huge = []          # texts of ~65 536 bytes: run separately without the per-script heap balance (the harness's own result
                       # buffers grow to megabytes inside the script, which the balance would report as a leak)
    count = {"EvalFileInPlace": 0, "EvalFileCopy": 0, "EvalFileRoomy": 0, "EvalFileAlias": 0, "EvalFileSubstr": 0}
    extreme = [0]
    famcount = {}

    def on_case(r):
        if cs.env is None:
            cs.env = x_c12.levels_env(r["lv"])
        i = r["args"][0]
        e = r["exp"]
        row = rows[i - 1]
        if r["op"] == "inplace":
            count["EvalFileInPlace"] += 1
            s, aligns, name = texts[i - 1]
            famcount[name] = famcount.get(name, 0) + 1
            cls = "%s,len=%s" % (name, len(s) if len(s) < 25 else (">=128" if len(s) >= 128 else "25..127"))
            steps = []
            for a in aligns:
                for h in ("chomp", "down", "up", "rev"):
                    steps.append(("al", [h, str(a), tok(s)], tok(e[h]), cls + ",align=%d" % a))
                steps.append(("al", ["safe", str(a), tok(s), tok(e["ns"])], tok(e["safe"]), cls + ",align=%d" % a))
            steps.append(("al", ["condense", "0", tok(s)], tok(e["condense"]), cls + ",align=0"))
            if name != "byte-pairs" and len(ctx.cov["samples"]) < 10 and len(s) in (7, 128, 257):
                ctx.sample({"family": name, "len": len(s), "alignments": list(aligns), "first_bytes": s[:12], "safe_str_n": e["ns"]})
            (huge.append if len(s) >= 60000 else cs.add)(x_c12.Case(i, steps, {"family": name, "len": len(s)}))
        elif r["op"] == "copy":
            count["EvalFileCopy"] += 1
            b0 = r["args"][1]
            size, src = row["size"], row["src"]
            cat_exp = tok({"buf": e["cat"]["result"], "ret": e["cat"]["ret"]}) if e["cat"]["claimed"] else "*"
            cls = "size-sweep,size=%d" % size
            cs.add(x_c12.Case(i, [("strncpy", [str(size), tok(src), tok(b0)], tok({"buf": e["cpy"]["result"], "ret": e["cpy"]["ret"]}), cls),
                                  ("strncat", [str(size), tok(src), tok(b0)], cat_exp, cls)], {"family": "size-sweep"}))
        elif r["op"] == "alias":
            count["EvalFileAlias"] += 1
            m = r["args"][1]
            cls = "size-sweep,%s,%s" % ("dst=src" if row["off"] == 0 else "src-inside-dst-buffer", "cut" if len(row["s"]) - row["off"] >= row["size"] else "fits")
            cs.add(x_c12.Case(i, [("strncpy_alias", [str(row["size"]), str(row["off"]), tok(m)], tok({"buf": e["result"], "ret": e["ret"]}), cls)],
                              {"family": "aliased-copy"}))
        elif r["op"] == "roomy":
            count["EvalFileRoomy"] += 1
            extreme[0] += 1
            size, src, b0 = row["size"], row["src"], e["buf0"]
            cls = "extreme-size,size>=2^%d" % (size.bit_length() - 1)
            cs.add(x_c12.Case(i, [("strncpy_roomy", [str(size), tok(src), tok(b0)], tok({"buf": e["cpy"]["result"], "ret": e["cpy"]["ret"]}), cls),
                                  ("strncat_roomy", [str(size), tok(src), tok(b0)], tok({"buf": e["cat"]["result"], "ret": e["cat"]["ret"]}), cls)],
                              {"family": "extreme-values"}))
        else:
            count["EvalFileSubstr"] += 1
            big = max(abs(row["idx"]), abs(row["cnt"])) >= 32767
            extreme[0] += big
            cls = ("extreme-values,%s%s" % ("idx-extreme," if abs(row["idx"]) >= 32767 else ("idx=0," if row["idx"] == 0 else "idx-small,"),
                                             "cnt-extreme" if abs(row["cnt"]) >= 32767 else "cnt-small")) if big else "size-sweep,len=%d" % len(row["s"])
            if big and len(ctx.cov["samples"]) < 11 and row["idx"] == 1 and row["cnt"] in (INT_MAX, INT_MIN) and len(row["s"]) == 16:
                ctx.sample({"family": "extreme-values", "op": "substr", "len": 16, "idx": row["idx"], "cnt": row["cnt"], "expected": e})
            cs.add(x_c12.Case(i, [("substr", [tok(row["s"]), str(row["idx"]), str(row["cnt"])], tok(e["result"]) if e["ok"] else "-", cls)],
                              {"family": "extreme-values" if big else "size-sweep"}))
    try:
        res = x_c12.tlc_cases(ctx, "StrHelpersFile.tla", "StrHelpersFile.cfg", list(count), on_case, coverage=False,
                              taken=lambda: count, env={"CASES": path})
    finally:
        tot = cs.close()
    nhuge = 0
    if huge:
        nhuge = x_c12.run_cases(ctx, exe, [], huge, keyfn, "families_huge_texts", env=dict(cs.env or {}, VH_NO_HEAP="1", VH_WATCHDOG="300"))[0]
    tot["scripts"] += nhuge
    if res.ok and (tot["scripts"] != len(rows) or res.edges != len(rows)):
        raise Broken("families: %d rows, %d evaluated by TLC, %d replayed" % (len(rows), res.edges, tot["scripts"]))
    ctx.cov["families"] = {"texts_by_family": famcount, "copy_and_substr_size_sweep": count["EvalFileCopy"] + count["EvalFileSubstr"] + count["EvalFileRoomy"] - extreme[0],
                           "aliased_copy_size_sweep": count["EvalFileAlias"],
                           "extreme_integer_argument_cases": extreme[0],
                           "ordered_byte_pairs_covered_at_each_offset_mod_8": 255 * 255,
                           "note": "every in-place call is preceded by the same call at the same address on different content of the same "
                                   "length with errno = ERANGE (purity); texts run at the listed start alignments"}
    ctx.add("distinct_nontrivial", len(rows))


def run(ctx):
    exe = harness(ctx)
    cfg = "StrHelpers_quick.cfg" if ctx.tier == "quick" else "StrHelpers_thorough.cfg"
    nontriv = [0]
    n = [0]
    cs = x_c12.CaseStream(ctx, exe, [], keyfn, "cases")

    def on_case(r):
        if cs.env is None:
            cs.env = x_c12.levels_env(r["lv"])         # the specification's DebugLevels: every case runs at each of them
            ctx.cov["debug_levels"] = list(r["lv"])
        n[0] += 1
        cs.add(mk_case(n[0], r))
        a = r["args"]
        if (r["op"] == "copy" and len(a[1]) > 0) or (r["op"] == "substr" and len(a[0]) > 0) or (r["op"] == "inplace" and len(a[0]) > 0) or r["op"] == "alias":
            nontriv[0] += 1
        if (r["op"], a) in SAMPLE_ARGS:       # chosen by content, so the evidence does not depend on TLC's emission order
            ctx.sample({"op": r["op"], "args": a, "expected": r["exp"]})
    try:
        res = x_c12.tlc_cases(ctx, "MC_StrHelpers.tla", cfg, ACTIONS, on_case)
    finally:
        tot = cs.close()
    if res.ok and tot["scripts"] != res.edges:
        raise Broken("emitted %d cases, replayed %d" % (res.edges, tot["scripts"]))
    families(ctx, exe)
    import json
    ctx.cov["samples"].sort(key=lambda s: json.dumps(s, sort_keys=True))
    ctx.add("distinct_nontrivial", nontriv[0])
    ctx.cov["exhaustive"] = True
    ctx.cov["rule"] = ("every argument tuple of the bounded universe is evaluated by TLC (reference + laws) and executed on the implementation; "
                       "a tuple is non-trivial when its source / text is not empty (tuples are distinct by construction)")
    ctx.assumptions += ["ASan build of the current tree (clang -O1)", "C locale"]


def replay(ctx, path):
    return x_c12.replay_file(harness(ctx), [], path, ctx.rundir)
