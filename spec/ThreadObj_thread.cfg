SPECIFICATION Spec
CONSTANTS
  Part = "thread"
  Obs <- ObsEmit
INVARIANTS TypeOK WellFormed Separate
CHECK_DEADLOCK FALSE
