SPECIFICATION SpecIdeal
CONSTANTS
  LongLens = {1, 2, 5}
  DescLens = {0, 3, 4, 9}
  TypeBits = {1}
  MaxOpts = 1
  Names <- NamesQuick
  Obs <- ObsNone
CHECK_DEADLOCK FALSE
