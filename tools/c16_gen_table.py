#!/usr/bin/env python3
"""C16: seed the NULL-guard contract table from the entry guards of the PINNED sources.

Run ONCE (and again only deliberately, when the API grows):   tools/c16_gen_table.py <pinned-repo>
writes spec/NullGuardTable.json and spec/NullGuardTable.tla, which are then reviewed and committed.
checks/c16.py never calls this script: the table is the oracle, a dropped guard must not edit it.

One row per (entry point or class-table slot) x (pointer-parameter position).
  via      direct  - exported function called by name
           slot    - static method reached through a class table (classvar->member)
  guard    the entry guard of the pinned source for that parameter (ASSERT_RVAL / REQUIRE_RVAL / ASSERT / REQUIRE /
           SPIF_OBJ_COMP_CHECK_NULL / SPIF_COMP_CHECK_NULL), or null
  fail     failure value class: FALSE | NULL | MINUS1 | CMP_LESS | CMP_GREATER (NULL sorts below everything) | NAN | ZERO | TYPENAME | VOID | ANY (R2)
  claimed  the property makes a claim about this row.  Rules (the review decisions, applied uniformly):
           R1 a parameter with an entry guard whose failure value is a constant            -> claimed, fail from the guard
           R2 the object argument (first parameter "self") of a method without a guard     -> claimed with fail = ANY: no failure
              of its own (delegating one-liners, tolerant methods)                            value is documented, so only "no memory
              fault, no exit at level 0, other arguments untouched" is demanded; the returned value and allocation are not judged
           R3 both arguments of a comp slot                                                -> claimed CMP (NULL ordering)
           R4 show(): NULL self is a defined input ("NULL" is appended to the buffer)      -> not claimed
           R5 a guard whose "failure value" is a call (init_from_ptr(self, NULL) == init)  -> NULL is a defined input, not claimed
           R6 anything else without an entry guard                                         -> not claimed (no documented guard)
           R8 variants of a claimed row (same contract, the guard sits at the entry):      nint / nsigned = integer companion
              arguments, called at their mid-range value, all at 0 and (signed ones) all at -1; allnull = on the row of the FIRST
              entry guard of a function with >= 2 pointer parameters: the failure class an ALL-POINTERS-NULL call must return
              (CMP_EQUAL for the NULL-ordering macros and comp slots); no variants where a non-pointer guard comes first
           R9 a one-line wrapper (the body after the entry guards is a single return handing the parameter unchanged to a function
              of the same file, directly or inside  X_ISNULL(...) ? FALSE : TRUE) inherits the callee's entry guard
              further variants cross the NULL position with content classes of the OTHER arguments: nidx = index arguments, called
              at the container's count and beyond it; hasempty = another argument has an empty / empty-accepting content class
              (empty list, "" string, a pattern that accepts the empty string); haslist / retchars see NullGuard.tla
           R7 functions that cannot be called in the harness (NOT_CALLABLE: X11/Imlib2)    -> rows listed, never claimed
Besides "rows" the JSON lists "no_pointer_parameters" (exported entry points with nothing to pair with NULL) and "excluded"
(declared in include/ but not built in the pinned configuration), so that the header scan of checks/c16.py reports only
genuinely NEW entry points as UNCLASSIFIED.
"""
import re, sys, json, os, subprocess

FILES = ("str ustr mbuff objpair tok url regexp socket array linked_list dlinked_list strings obj "
         "msgs mem builtin_hashes options conf module pthreads file").split()
OWNER = {"str.c": "C01", "ustr.c": "C01", "mbuff.c": "C07", "array.c": "C03", "linked_list.c": "C03", "dlinked_list.c": "C03",
         "strings.c": "C12", "tok.c": "C12", "url.c": "C14", "socket.c": "C14", "objpair.c": "coordinator", "regexp.c": "coordinator",
         "obj.c": "coordinator", "msgs.c": "C15/C16/C20", "mem.c": "C15/C16/C20", "builtin_hashes.c": "C18", "options.c": "C08",
         "conf.c": "C09/C10", "module.c": "coordinator", "pthreads.c": "coordinator", "file.c": "coordinator"}
# functions whose rows are listed but never claimed, with the reason (review decision)
NOT_CALLABLE = {"spifmem_x_create_pixmap": "needs an X display", "spifmem_x_free_pixmap": "needs an X display",
                "spifmem_x_create_gc": "needs an X display", "spifmem_x_free_gc": "needs an X display",
                "spifmem_imlib_register_pixmap": "needs an X display / Imlib2", "spifmem_imlib_free_pixmap": "needs an X display / Imlib2"}
SCALAR = {"spif_memidx_t", "size_t", "spif_stridx_t", "spif_ustridx_t", "int", "spif_char_t", "spif_listidx_t", "long", "spif_int32_t",
          "spif_uint8_t", "unsigned long", "unsigned short", "register size_t", "register const char", "...", "spif_bool_t", "double",
          "spif_uint32_t", "spif_sockport_t", "unsigned int", "char", "unsigned char", "Drawable", "Pixmap", "spif_tls_handle_t",
          "spif_uint16_t", "spif_uint64_t", "spif_int64_t", "spif_int16_t", "spif_int8_t", "short"}
SIGNED_INT = {"spif_memidx_t", "spif_stridx_t", "spif_ustridx_t", "spif_listidx_t", "spif_int32_t", "int", "long", "spif_tls_handle_t",
              "short", "spif_int64_t", "spif_int16_t", "spif_int8_t"}
UNSIGNED_INT = {"size_t", "unsigned long", "unsigned short", "unsigned char", "unsigned int", "spif_uint8_t", "spif_uint32_t",
                "spif_sockport_t", "spif_uint16_t", "spif_uint64_t"}


def int_kind(t, n):
    """'s' / 'u' for an integer companion argument that the variants set to 0 (and -1 when signed); None otherwise"""
    t = re.sub(r'\b(register|const)\s+', '', t).strip()
    if n == "fd":
        return None                 # a descriptor is a resource, not a magnitude
    return "s" if t in SIGNED_INT else ("u" if t in UNSIGNED_INT else None)


FN = re.compile(r'^(static\s+)?((?:const\s+|unsigned\s+|struct\s+)?[A-Za-z_]\w*(?:\s*\*+)?)\s*\n(\w+)\(([^)]*)\)\s*\n\{', re.M)
GUARD = re.compile(r'^(ASSERT_RVAL|REQUIRE_RVAL|ASSERT|REQUIRE|SPIF_OBJ_COMP_CHECK_NULL|SPIF_COMP_CHECK_NULL)\s*\((.*)\);$')
DECL = re.compile(r'^(register\s+|const\s+|unsigned\s+|struct\s+|static\s+)*[A-Za-z_]\w*[\s\*]+\**\w+(\[[^\]]*\])?(\s*=\s*[^;]+)?'
                  r'(\s*,\s*\**\w+(\[[^\]]*\])?(\s*=\s*[^;]+)?)*;$')
BASE_MEMBERS = ["classname", "noo", "init", "done", "del", "show", "comp", "dup", "type"]


def split_args(s):
    out, depth, cur = [], 0, ""
    for ch in s:
        if ch == "," and depth == 0:
            out.append(cur.strip())
            cur = ""
        else:
            depth += ch in "([{"
            depth -= ch in ")]}"
            cur += ch
    if cur.strip():
        out.append(cur.strip())
    return out


def strip_comments(txt):
    return re.sub(r'/\*.*?\*/', lambda m: re.sub(r'[^\n]', ' ', m.group(0)), txt, flags=re.S)


def parse_functions(repo, name):
    txt = strip_comments(open(os.path.join(repo, "src", name + ".c")).read())
    res = []
    for m in FN.finditer(txt):
        static, ret, fn, params = bool(m.group(1)), " ".join(m.group(2).split()), m.group(3), m.group(4)
        end = txt.find("\n}\n", m.end())
        body = txt[m.end():end]
        ps = []
        for p in split_args(" ".join(params.split())):
            if p in ("void", ""):
                continue
            if p == "...":
                ps.append(["...", "..."])
                continue
            arr = p.endswith("[]")                       # "char *argv[]" is "char **argv"
            if arr:
                p = p[:-2].strip()
            mm = re.match(r'^(.*?)(\w+)$', p)
            t = " ".join(mm.group(1).split()).strip()
            ps.append([(t + "*" if t.endswith("*") else t + " *") if arr else t, mm.group(2)])
        guards = []
        blines = body.split("\n")
        rest_from = len(blines)
        for li, line in enumerate(blines):
            s = line.strip()
            if not s:
                continue
            g = GUARD.match(s)
            if g:
                guards.append([g.group(1), split_args(g.group(2))])
                continue
            if s.startswith("USE_VAR(") or s.startswith("va_list") or DECL.match(s) or re.match(r'^D_\w+\(\(.*\)\);$', s):
                continue
            rest_from = li
            break
        rest = " ".join(" ".join(blines[rest_from:]).split())
        res.append(dict(file=name + ".c", static=static, ret=ret, name=fn, params=ps, guards=guards, rest=rest))
    return res, txt


def class_members(repo):
    """interface struct name -> member names after the parent (from the headers)"""
    out = {}
    inc = os.path.join(repo, "include", "libast")
    for h in sorted(os.listdir(inc)):
        if not h.endswith(".h"):
            continue
        txt = strip_comments(open(os.path.join(inc, h)).read())
        for m in re.finditer(r'SPIF_DECL_OBJ\((\w*class)\)\s*\{(.*?)\n\};', txt, re.S):
            out[m.group(1)] = re.findall(r'spif_func_t\s+(\w+)\s*;', m.group(2))
    return out


def class_tables(txt, members):
    """[(exported variable, interface, {function: member})] from the class-table initialisers of one source file"""
    res = []
    for m in re.finditer(r'^static\s+(?:spif_const_(\w+)_t|SPIF_CONST_TYPE\((\w+)\))\s+(\w+)\s*=\s*\{(.*?)\n\};', txt, re.S | re.M):
        iface, var, init = (m.group(1) or m.group(2)), m.group(3), m.group(4)
        fns = re.findall(r'\(spif_func_t\)\s*(\w+)', init)
        names = BASE_MEMBERS[1:] + (members.get(iface, []) if iface != "class" else [])
        if len(fns) != len(names):
            raise SystemExit("class table %s: %d functions for %d members" % (var, len(fns), len(names)))
        # exported variable(s) pointing at this table
        ev = re.findall(r'^(?:SPIF_TYPE\(\w+\)|spif_\w+_t)\s+(SPIF_\w*CLASS_VAR\(\w+\))\s*=\s*(?:\([^)]*\)\s*)?&%s;' % var, txt, re.M)
        if not ev:
            continue
        # prefer the typed variable (SPIF_STRCLASS_VAR over SPIF_CLASS_VAR) so that interface members are addressable
        ev.sort(key=lambda x: x.startswith("SPIF_CLASS_VAR"))
        res.append((ev[0], iface, list(zip(names, fns))))
    return res


def own_guard(f, n):
    """(macro, failure value text) of f's entry guard that names parameter n, or None"""
    for kind, args in f["guards"]:
        if kind in ("SPIF_OBJ_COMP_CHECK_NULL", "SPIF_COMP_CHECK_NULL"):
            if n in args:
                return (kind, "CMP_LESS" if args.index(n) == 0 else "CMP_GREATER")     # NULL sorts below everything
            continue
        cond = args[0]
        if (re.search(r'ISNULL\s*\(\s*%s\s*\)' % re.escape(n), cond) or re.search(r'\b%s\s*!=\s*(\([^)]*\)\s*)?NULL' % re.escape(n), cond)
                or cond.strip() == n):
            return (kind, args[1] if len(args) > 1 else "void")
    return None


def delegated_guard(f, n, byname):
    """R9: the rest of f (after its entry guards) is ONE return statement that hands parameter n unchanged to a function of the
    same file whose parameter has an entry guard.   return callee(..n..);                          -> the callee's failure class
                                                     return ((X_ISNULL(callee(..n..))) ? (FALSE) : (TRUE));  -> FALSE when that is NULL"""
    rest = f.get("rest", "")
    m = re.fullmatch(r'return\s*\(*\s*(?:\([\w \*]+\)\s*)?(\w+)\s*\((.*)\)\s*\)*\s*;', rest)
    test = re.fullmatch(r'return\s*\(\s*\(\s*\w+_ISNULL\s*\(\s*(\w+)\s*\((.*?)\)\s*\)\s*\)\s*\?\s*\(?\s*FALSE\s*\)?\s*:\s*\(?\s*TRUE\s*\)?\s*\)\s*;', rest)
    mm = test or m
    if not mm or mm.group(1) not in byname:
        return None
    callee = byname[mm.group(1)]
    args = split_args(mm.group(2))
    if n not in args or args.index(n) >= len(callee["params"]):
        return None
    g = own_guard(callee, callee["params"][args.index(n)][1])
    if not g:
        return None
    fc = fail_class(g[1], callee["ret"])
    if fc == "CALL":
        return None
    if test:
        return (g[0], "FALSE") if fc == "NULL" else None
    return (g[0], fc) if (is_ptr(f["ret"]) == is_ptr(callee["ret"])) else None


def is_ptr(t):
    t = re.sub(r'\b(register|const)\s+', '', t).strip()
    return "*" in t or t not in SCALAR


def fail_class(val, ret):
    v = val.replace(" ", "")
    if v.startswith("CMP_"):
        return v
    if v == "void":
        return "VOID"
    if "NULLSTR_TYPE" in v:
        return "TYPENAME"
    if re.search(r'\w+\(self', v) or re.search(r'_init\(', v):
        return "CALL"
    if "NAN" in v:
        return "NAN"
    if "-1" in v:
        return "MINUS1"
    if v == "FALSE":
        return "FALSE" if ret == "spif_bool_t" else ("NULL" if is_ptr(ret) else "ZERO")
    if "NULL" in v:
        return "NULL" if is_ptr(ret) else "ZERO"
    if re.search(r'\)0$', v) or v == "0":
        return "NULL" if is_ptr(ret) else "ZERO"
    raise SystemExit("unclassified failure value %r" % val)


def main():
    repo = sys.argv[1]
    verif = os.path.dirname(os.path.dirname(os.path.abspath(__file__)))
    members = class_members(repo)
    rows = []
    # exported symbols actually built (strings.c carries libc replacements that are compiled only where libc lacks them)
    declared = set()
    for h in [os.path.join(repo, "include", "libast.h")] + [os.path.join(repo, "include", "libast", x) for x in os.listdir(os.path.join(repo, "include", "libast")) if x.endswith(".h")]:
        declared |= {n for n in re.findall(r'^extern\s+[^;(]*?\b(\w+)\s*\(', strip_comments(open(h).read()), re.M)
                     if not re.fullmatch(r'[A-Z_0-9]+', n)}           # SPIF_CLASS_VAR(x) etc. declare variables, not functions
    # ... and only what the pinned build really exports (some strings.c functions are compiled conditionally)
    lib = os.path.join(repo, "src", ".libs", "libast.a")
    if os.path.exists(lib):
        out = subprocess.run(["nm", "--defined-only", lib], capture_output=True, text=True).stdout
        built = set(re.findall(r"^[0-9a-f]+ T (\w+)$", out, re.M))
    else:
        raise SystemExit("the pinned tree must be built (src/.libs/libast.a) so that conditionally compiled functions can be told apart")
    all_declared = set(declared)
    declared &= built
    seen_funcs, nopointer = set(), []
    for name in FILES:
        funcs, txt = parse_functions(repo, name)
        byname = {f["name"]: f for f in funcs}
        tables = class_tables(txt, members)
        units = []      # (function, via, classvar, member, iface)
        for f in funcs:
            if not f["static"] and f["name"] in declared:
                seen_funcs.add(f["name"])
                if not any(is_ptr(t) for t, n in f["params"]):
                    nopointer.append(f["name"])
                units.append((f, "direct", None, None, None))
        for var, iface, slots in tables:
            for member, fn in slots:
                f = byname.get(fn)
                if f is not None and f["static"]:
                    units.append((f, "slot", var, member, iface))
        method_prefix = "spif_%s_" % name
        for f, via, var, member, iface in units:
            is_method = f["name"].startswith(method_prefix) or f["name"].startswith("spif_obj_") or via == "slot"
            short = member or f["name"][len(method_prefix):] if f["name"].startswith(method_prefix) else (member or f["name"])
            kinds = [int_kind(t, n) for t, n in f["params"]]
            nint, nsigned = sum(k is not None for k in kinds), sum(k == "s" for k in kinds)
            bare = [re.sub(r'\b(register|const)\s+', '', t).strip() for t, n in f["params"]]
            nidx = sum(t in ("spif_listidx_t", "spif_stridx_t", "spif_ustridx_t", "spif_memidx_t") for t in bare)
            emptyable = any(t in ("spif_str_t", "spif_ustr_t", "spif_regexp_t", "spif_list_t", "spif_array_t", "spif_linked_list_t",
                                  "spif_dlinked_list_t", "spif_charptr_t", "char *") for t in bare)
            pnames = [n for t, n in f["params"] if is_ptr(t)]
            # the first entry guard that names a pointer parameter: what an all-pointers-NULL call must hit (R8)
            first_guard = None          # (parameter name, failure class)
            numeric_guard_first = False
            for gi, (kind, args) in enumerate(f["guards"]):
                if kind in ("SPIF_OBJ_COMP_CHECK_NULL", "SPIF_COMP_CHECK_NULL"):
                    hit = [a for a in args if a in pnames]
                    if hit:
                        first_guard = (hit[0], "CMP_EQUAL" if len(hit) == 2 else ("CMP_LESS" if args.index(hit[0]) == 0 else "CMP_GREATER"))
                        break
                    continue
                hit = [pn for pn in pnames if (re.search(r'ISNULL\s*\(\s*%s\s*\)' % re.escape(pn), args[0])
                                               or re.search(r'\b%s\s*!=\s*(\([^)]*\)\s*)?NULL' % re.escape(pn), args[0]) or args[0].strip() == pn)]
                if hit:
                    fc = fail_class(args[1] if len(args) > 1 else "void", f["ret"])
                    first_guard = (hit[0], fc) if fc != "CALL" else None
                    break
                numeric_guard_first = True      # an entry guard on something else precedes every pointer guard
            unit_is_show = short == "show" or f["name"].endswith("_show")
            unit_is_comp = ((member == "comp") or f["name"].endswith("_comp")) and f["ret"] == "spif_cmp_t"
            if len(pnames) < 2 or unit_is_show or f["name"] in NOT_CALLABLE or numeric_guard_first:
                first_guard = None
            elif first_guard is None and unit_is_comp:
                first_guard = (pnames[0], "CMP_EQUAL")
            for i, (t, n) in enumerate(f["params"]):
                if not is_ptr(t):
                    continue
                g = own_guard(f, n)
                dg = None if g else delegated_guard(f, n, byname)
                claimed, why, fail = False, "", None
                if f["name"] in NOT_CALLABLE:
                    rows.append(dict(file=f["file"], owner=OWNER[f["file"]], func=f["name"], via=via, classvar=var, member=member, iface=iface,
                                     ret=f["ret"], params=f["params"], pos=i, pname=n, ptype=t, guard=g[0] if g else None,
                                     fail=None, claimed=False, why="R7 not callable in the harness: " + NOT_CALLABLE[f["name"]],
                                     nint=0, nsigned=0, allnull=None, retchars=False, haslist=False, nidx=0, hasempty=False))
                    continue
                is_self = (i == 0 and n == "self" and is_method)
                is_show = short == "show" or f["name"].endswith("_show")
                is_comp = (member == "comp") or f["name"].endswith("_comp")
                if is_show:
                    why = "R4 show(): NULL self/arguments are defined inputs"
                elif g and fail_class(g[1], f["ret"]) == "CALL":
                    why = "R5 NULL is a defined input (falls back to the plain initialiser)"
                elif g:
                    claimed, fail, why = True, fail_class(g[1], f["ret"]), "R1 entry guard"
                elif dg and not is_comp:
                    g = (dg[0] + " (delegated)", dg[1])
                    claimed, fail, why = True, dg[1], "R9 one-line wrapper: the callee's entry guard decides"
                elif is_comp and i <= 1 and f["ret"] == "spif_cmp_t":
                    claimed, fail, why = True, ("CMP_LESS" if i == 0 else "CMP_GREATER"), "R3 comp slot: NULL ordering"
                elif is_self:
                    claimed, fail, why = True, "ANY", "R2 object argument of a method (no guard of its own in the pinned source)"
                else:
                    why = "R6 no entry guard documented for this parameter"
                rows.append(dict(file=f["file"], owner=OWNER[f["file"]], func=f["name"], via=via, classvar=var, member=member, iface=iface,
                                 ret=f["ret"], params=f["params"], pos=i, pname=n, ptype=t, guard=g[0] if g else None,
                                 fail=fail, claimed=claimed, why=why,
                                 nint=nint if (claimed and not numeric_guard_first) else 0,
                                 nsigned=nsigned if (claimed and not numeric_guard_first) else 0,
                                 allnull=(first_guard[1] if (first_guard and first_guard[0] == n and claimed) else None),
                                 nidx=nidx if (claimed and not numeric_guard_first) else 0,
                                 hasempty=bool(claimed and emptyable and len(pnames) >= 2),
                                 retchars=bool(claimed and re.sub(r'\b(register|const)\s+', '', f["ret"]).strip() in ("spif_charptr_t", "char *")),
                                 haslist=bool(claimed and (iface == "listclass" or any(tt == "spif_list_t" for tt, nn in f["params"])))))
    rows.sort(key=lambda r: (FILES.index(r["file"][:-2]), r["via"], r["classvar"] or "", r["func"], r["pos"]))
    for k, r in enumerate(rows):
        r["id"] = k + 1
        r["key"] = ("%s#%d" % (r["func"], r["pos"])) if r["via"] == "direct" else ("%s->%s#%d" % (re.sub(r'SPIF_(\w*)CLASS_VAR\((\w+)\)', lambda m: "%s.%sclass" % (m.group(2), m.group(1).lower()), r["classvar"]), r["member"], r["pos"]))
    excluded = [{"name": n, "reason": "declared in include/ but not compiled in the pinned configuration (libc provides it / feature macro off)"}
                for n in sorted(all_declared - built)]
    excluded += [{"name": n, "reason": "exported and declared, but its definition was not recognised by the table generator - classify by hand"}
                 for n in sorted(declared - seen_funcs)]
    json.dump({"generated_from": "pinned sources (entry guards ASSERT_RVAL / REQUIRE_RVAL / SPIF_OBJ_COMP_CHECK_NULL), reviewed rules R1-R7",
               "rows": rows,
               "no_pointer_parameters": sorted(nopointer),      # exported entry points without a pointer parameter: nothing to pair with NULL
               "excluded": excluded},
              open(os.path.join(verif, "spec", "NullGuardTable.json"), "w"), indent=1)
    with open(os.path.join(verif, "spec", "NullGuardTable.tla"), "w") as f:
        f.write("---------------------------- MODULE NullGuardTable ----------------------------\n")
        f.write("(* C16 contract table, generated ONCE by tools/c16_gen_table.py from the pinned sources and reviewed;   *)\n")
        f.write("(* twin of NullGuardTable.json.  One row per (entry point or class-table slot, pointer parameter).     *)\n")
        f.write("(* nint/nsigned: integer companion arguments varied (0 / -1); allnull: class an all-pointers-NULL call returns.  *)\n")
        f.write("(* fail: failure value class; claimed: the property makes a claim about the row; guard: the pinned     *)\n")
        f.write("(* source's entry guard (\"none\" = no guard of its own).  NOT regenerated by the check.                 *)\n")
        f.write("Rows == <<\n")
        f.write(",\n".join('  [id |-> %d, key |-> "%s", fail |-> "%s", claimed |-> %s, guard |-> "%s", nint |-> %d, nsigned |-> %d, allnull |-> "%s", retchars |-> %s, haslist |-> %s, nidx |-> %d, hasempty |-> %s]' % (
            r["id"], r["key"], r["fail"] or "NONE", "TRUE" if r["claimed"] else "FALSE", (r["guard"] or "none").split(" ")[0], r["nint"], r["nsigned"],
            r["allnull"] or "NONE", "TRUE" if r["retchars"] else "FALSE", "TRUE" if r["haslist"] else "FALSE", r["nidx"], "TRUE" if r["hasempty"] else "FALSE") for r in rows))
        f.write("\n>>\n================================================================================\n")
    n = len(rows)
    c = sum(r["claimed"] for r in rows)
    print("%d rows, %d claimed, %d not claimed; %d entry points without pointer parameters, %d excluded" % (n, c, n - c, len(nopointer), len(excluded)))


if __name__ == "__main__":
    main()
