------------------------------ MODULE VerCmpFile ------------------------------
(* C17, pairs given in a file (env PAIRS, one JSON object {"a":[..],"b":[..]} per line): the long-run family  *)
(* (runs of 126..130 and 1000 characters of each class) and seeded random pairs.  TLC evaluates the same      *)
(* VerCmp operators on them, checks reflexivity / antisymmetry, and emits the expected code of every pair.    *)
EXTENDS VerCmp, IOUtils
Pairs == ndJsonDeserialize(IOEnv.PAIRS)
FileInit == done = FALSE /\ mode = "file" /\ row \in 1 .. Len(Pairs)
EvalFilePair == /\ ~done /\ mode = "file" /\ done' = TRUE /\ UNCHANGED <<mode, row>>
                /\ Obs("pair", <<row>>, Code(Pairs[row].a, Pairs[row].b), TRUE)
FileSpec == FileInit /\ [][EvalFilePair]_vars
FileLaws == ~done => LET a == Pairs[row].a b == Pairs[row].b x == VerCmpR(a, b) y == VerCmpR(b, a) IN
                     /\ VerCmp(a, a) = 0 /\ VerCmp(b, b) = 0
                     /\ x.v = -y.v /\ x.rule = y.rule
                     /\ (LowerAll(a) = LowerAll(b)) => x.v = 0
ObsEmitFile(op, args, ret, post) == PrintT(ToJson([op |-> op, args |-> args, r |-> ret, lv |-> DebugLevels]))
================================================================================
