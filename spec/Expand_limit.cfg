SPECIFICATION Spec
CONSTANTS
  Sel = {"esc", "dol1", "dol2", "til", "pg", "call", "mix", "app"}
  N = 4
  N1 = 5
  N2 = 3
  NCall = 4
  NMix = 3
  Limit = 3
  NameMax = 127
  AppName <- AppNameMC
  AppVersion <- AppVersionMC
  Starts <- StartsMC
  RegOffer <- RegMC
  EnvGet <- EnvMC
  DirGet <- DirMC
  Obs <- ObsNone
CONSTRAINT StoreBound
INVARIANTS TypeOK OutputBounded NeverReadsPastEnd
PROPERTIES RegisterOnlyAppends SingleQuoteOpaque PrefixSuffixPreserved PutThenGet StoreChangesOnlyOnReturn
CHECK_DEADLOCK FALSE
