SPECIFICATION Spec
CONSTANTS
  Names <- NamesThorough
  Vers = {}
  Msgs <- MsgsThorough
  MacroMsgs <- MacroMsgsThorough
  Levels <- LevelsThorough
  Clocks <- ClocksThorough
  Sites <- SitesThorough
  Macros <- MacrosAll
  D = 4
  Extras = FALSE
  AsBuilt = FALSE
  Obs <- ObsEmit
INVARIANTS TypeOK OwnershipSound NoLeak NoNullDeref NoUseAfterFree NoRecursion SetIdempotent SilentWritesNothing PrefixLaw GateLaw ControlLaw FormatLaws MacroFormats
CHECK_DEADLOCK FALSE
