SPECIFICATION TraceSpec
CONSTANTS
  Levels = {0, 1, 2, 3, 4, 5, 6}
  Obs <- ObsTrace
POSTCONDITION TraceAccepted
CHECK_DEADLOCK FALSE
