SPECIFICATION Spec
CONSTANTS
  Ids = {1, 2, 3}
  Sizes = {0, 8}
  Sites = {1, 2, 3}
  StrLens = {5}
  CallocShapes <- ShapesPool4
  SrcOffsets = {0, 1}
  CallocWraps <- WrapsAll
  HugeSizes <- HugeAll
  Levels = {0, 4, 5}
  Obs <- ObsEmit
INVARIANTS TypeOK TableIsLiveSet UnknownPointerNoChange ReallocNullAllocates ReallocZeroFrees ReallocKeepsOthers RefusedChangesNothing
PROPERTY LevelConstant
CHECK_DEADLOCK FALSE
