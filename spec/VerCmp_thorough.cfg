SPECIFICATION Spec
CONSTANTS
  RawSyms <- RawSymsThorough
  RawMax = 3
  NumVals <- NumValsThorough
  MaxNums = 3
  SuffixWords <- Words8
  SuffixNums <- SufNums
  TransMax = 2
  MaxClaimedRun = 127
  Obs <- ObsEmit
INVARIANTS Reflexive Antisymmetric StatedOrder
CHECK_DEADLOCK FALSE
