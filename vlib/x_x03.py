"""Helpers of the extension check X03 (threading wrappers): ThreadSanitizer library build, cfg instances of
spec/ThreadSync_tmpl.cfg, TLC-generated schedules for the controlled-scheduler replay, trace handling.
Own module (shared-code etiquette): nothing here changes vlib/*.py."""
import os, json, random, re, subprocess, shutil, time, hashlib, fcntl
from collections import defaultdict
from concurrent.futures import ThreadPoolExecutor
from . import build
from .core import BUILD, VERIF, NCPU, Broken, log
from .tlc import run_tlc, SPEC

TSAN = ["-fsanitize=thread"]


def build_tsan_lib(repo):
    """The current tree compiled with -fsanitize=thread (no ASan): (libdir, cflags).  Same cache discipline as build_lib."""
    os.makedirs(BUILD, exist_ok=True)
    cflags = build.BASE_CFLAGS + TSAN
    inc = build.include_flags(repo)
    key = build._sha_files(build.repo_inputs(repo), (cflags, "tsan"))
    libdir = os.path.join(BUILD, "lib-tsan-" + key)
    lock = open(os.path.join(BUILD, ".lock-lib-tsan-" + key), "w")
    fcntl.flock(lock, fcntl.LOCK_EX)
    try:
        if not os.path.exists(os.path.join(libdir, "libast.a")):
            t0 = time.time()
            tmp = libdir + ".tmp%d" % os.getpid()
            shutil.rmtree(tmp, ignore_errors=True)
            os.makedirs(tmp)

            def cc(s):
                cmd = [build.CC] + cflags + inc + ["-c", os.path.join(repo, "src", s + ".c"), "-o", os.path.join(tmp, s + ".o")]
                r = subprocess.run(cmd, capture_output=True, text=True)
                if r.returncode != 0:
                    raise Broken("compile failed: %s\n%s" % (" ".join(cmd), r.stderr[-3000:]))
            with ThreadPoolExecutor(NCPU) as ex:
                list(ex.map(cc, build.LIB_SOURCES))
            subprocess.check_call(["ar", "rcs", os.path.join(tmp, "libast.a")] + [os.path.join(tmp, s + ".o") for s in build.LIB_SOURCES])
            for s in build.LIB_SOURCES:
                os.unlink(os.path.join(tmp, s + ".o"))
            shutil.rmtree(libdir, ignore_errors=True)
            os.rename(tmp, libdir)
            log("built libast (tsan) in %.1fs -> %s" % (time.time() - t0, libdir))
            old = sorted([d for d in os.listdir(BUILD) if d.startswith("lib-tsan-") and ".tmp" not in d],
                         key=lambda d: os.path.getmtime(os.path.join(BUILD, d)), reverse=True)
            for d in old[3:]:
                shutil.rmtree(os.path.join(BUILD, d), ignore_errors=True)
        else:
            os.utime(libdir)
    finally:
        fcntl.flock(lock, fcntl.LOCK_UN)
        lock.close()
    return libdir, cflags + inc


# ------------------------------------------------------------------------------------------------ cfg instances
INV_ALL = "MCTypeOK QueuesDisjoint WaiterReleased OnlyLiveOwn BeliefSound MutualExclusion OneInCS CntNonNeg FinalCount JoinAfterFinish"


def cfg_instance(rundir, name, pattern, impl="ideal", nw=2, k=2, np_=1, q=1, spurious=True, fair=False, inv=INV_ALL, props="", obs="ObsNone"):
    tmpl = open(os.path.join(SPEC, "ThreadSync_tmpl.cfg")).read()
    rep = {"SPEC": "FairSpec" if fair else "MCSpec", "THR": "{" + ", ".join(str(i) for i in range(nw + 1)) + "}", "IMPL": impl,
           "SPUR": "TRUE" if spurious else "FALSE", "PATTERN": pattern, "NW": nw, "K": k, "NP": np_, "Q": q, "OBS": obs,
           "INV": inv, "PROPS": ("PROPERTIES " + props) if props else ""}
    for a, b in rep.items():
        tmpl = tmpl.replace("@%s@" % a, str(b))
    if not inv:
        tmpl = tmpl.replace("INVARIANTS \n", "")
    p = os.path.join(rundir, "ts-%s.cfg" % name)
    with open(p, "w") as f:
        f.write(tmpl)
    return p


# ------------------------------------------------------------------------------------------------ schedules from TLC's graph
def _key(st):
    return json.dumps(st, sort_keys=True, separators=(",", ":"))


class SchedGraph:
    """The transition relation of one MC_ThreadSync instance as TLC emitted it (full states, ghost state included)."""

    def __init__(self):
        self.ids = {}
        self.states = []
        self.out = defaultdict(list)     # node -> [edge index]
        self.edges = []                  # (u, v, op, t, o, r)
        self._seen = set()
        self.init = None

    def add(self, e):
        u, v = self._nid(e["pre"]), self._nid(e["post"])
        t, o = e["args"][0], e["args"][1]
        sig = (u, v, e["op"], t, o, bool(e["ret"]))
        if sig in self._seen:
            return
        self._seen.add(sig)
        self.out[u].append(len(self.edges))
        self.edges.append(sig)

    def _nid(self, st):
        k = _key(st)
        i = self.ids.get(k)
        if i is None:
            i = len(self.states)
            self.ids[k] = i
            self.states.append(st)
        return i

    def find_init(self):
        has_in = set(e[1] for e in self.edges)
        roots = [i for i in range(len(self.states)) if i not in has_in]
        if len(roots) != 1:
            raise Broken("schedule graph: expected one initial state, found %d" % len(roots))
        self.init = roots[0]
        return self.init


ACQ = ("lock", "try", "wait_end", "twait_end")
INSTR = {"wait_begin": "wait", "twait_begin": "twait"}


def _blocked(st, t):
    for q in ("wt", "rdy", "tmo"):
        for c, ts in st[q].items():
            if t in ts:
                return True
    return False


def make_scripts(g, n, seed, max_attempts=3, p_attempt=0.6, max_len=400):
    """n schedules (walks from the initial state to termination), biased towards transitions not yet used.
    Returns (list of (lines, walk_edges), distinct edges used, walks abandoned)."""
    rnd = random.Random(seed)
    g.find_init()
    used = set()
    scripts = []
    abandoned = 0
    tries = 0
    while len(scripts) < n and tries < n * 6:
        tries += 1
        cur = g.init
        pend = {}            # t -> (op, o): issued early, the model says it is blocked
        lines = []
        walk = []
        nb = 0
        ok = True
        for _ in range(max_len):
            outs = g.out.get(cur, [])
            if not outs:
                break
            st = g.states[cur]

            def competing(o):
                s = set(t for t, (op, oo) in pend.items() if op == "lock" and oo == o)
                s |= set(st["rdy"].get(str(o), [])) | set(st["tmo"].get(str(o), []))
                return s
            # calls the model blocks right now, issued early (must still be pending 25 ms later)
            for t2s, ins in sorted(st["nxt"].items()):
                t2 = int(t2s)
                if nb >= max_attempts or t2 in pend or st["ts"][t2s] != "run" or _blocked(st, t2) or st["ph"][t2s] != 0:
                    continue
                op, a = ins[0], ins[1]
                if op == "lock" and st["own"][str(a)] not in (-1, t2) and not competing(a) and rnd.random() < p_attempt:
                    lines.append("B %d lock %d" % (t2, a))
                    pend[t2] = ("lock", a)
                    nb += 1
                elif op == "join" and st["ts"][str(a)] == "run" and rnd.random() < p_attempt:
                    lines.append("B %d join %d" % (t2, a))
                    pend[t2] = ("join", a)
                    nb += 1
            allowed = []
            for ei in outs:
                u, v, op, t, o, r = g.edges[ei]
                if op.startswith("tau_"):
                    continue
                if op in ACQ and (op != "try" or st["own"][str(o)] == -1) and (competing(o) - {t}):
                    continue        # somebody else is really waiting for o: who gets it is the implementation's choice
                if op in ("signal", "bcast") and len(st["wt"].get(str(o), [])) >= 2:
                    continue        # which sleeper a signal wakes is the implementation's choice
                allowed.append(ei)
            if not allowed:
                ok = False
                break
            fresh = [ei for ei in allowed if ei not in used]
            ei = rnd.choice(fresh if fresh and rnd.random() < 0.85 else allowed)
            u, v, op, t, o, r = g.edges[ei]
            walk.append(ei)
            if t in pend and pend[t] == (op, o):
                lines.append("C %d" % t)
                del pend[t]
            elif op in INSTR:
                lines.append("I %d %s %d" % (t, INSTR[op], o))
            elif op in ("wait_end", "twait_end"):
                lines.append("C %d" % t)
            else:
                lines.append("D %d %s %d" % (t, op, o))
            cur = v
        else:
            ok = False
        if not ok or pend:
            abandoned += 1
            continue
        used.update(walk)
        lines.append("E")
        scripts.append((lines, walk))
    return scripts, len(used), abandoned


# ------------------------------------------------------------------------------------------------ traces
def read_events(path):
    ev = []
    with open(path) as f:
        for line in f:
            line = line.strip()
            if line:
                ev.append(json.loads(line))
    return ev


def executions(events):
    """split at reset events: list of lists (each starts with its reset)"""
    out = []
    for e in events:
        if e["op"] == "reset" or not out:
            out.append([])
        out[-1].append(e)
    return out


def mask_ops(events, ops):
    """the trace without the events of some operations, per-thread sequence numbers renumbered"""
    out = []
    seq = {}
    for e in events:
        if e["op"] == "reset":
            seq = {}
            out.append(e)
            continue
        if e["op"] in ops:
            continue
        seq[e["t"]] = seq.get(e["t"], 0) + 1
        e2 = dict(e)
        e2["n"] = seq[e["t"]]
        out.append(e2)
    return out


def unsignalled_wakeups(events):
    """returns of wait (any result) / of wait_timed with TRUE although no signal/broadcast on that condition was logged since the thread's wait began
    (a metric read off the log, not a verdict: POSIX allows such wake-ups, a correct implementation shows next to none)"""
    n = 0
    since = {}
    for e in events:
        op = e["op"]
        if op == "reset":
            since = {}
        elif op in ("wait_begin", "twait_begin"):
            since[e["t"]] = 0
        elif op in ("signal", "bcast"):
            for t in since:
                since[t] += 1
        elif op in ("wait_end", "twait_end"):
            if (op == "wait_end" or e["r"] == 1) and since.get(e["t"], 1) == 0:
                n += 1
            since.pop(e["t"], None)
    return n


_RE_REJ = re.compile(r'"TRACE_REJECTED_AFTER", (\d+), "OF", (\d+)')


def tlc_validate(rundir, events, tag, timeout=900):
    """(accepted, n_consumed) for one TLC run of ThreadSyncTrace on the events"""
    path = os.path.join(rundir, "trace-%s.ndjson" % tag)
    with open(path, "w") as f:
        for e in events:
            f.write(json.dumps(e, separators=(",", ":")) + "\n")
    res = run_tlc("ThreadSyncTrace.tla", "ThreadSyncTrace.cfg", rundir, workers=1, timeout=timeout, env={"TRACE": path, "JAVA_TOOL_OPTIONS": "-XX:ParallelGCThreads=2"},
                  heap="4g", coverage=False)
    txt = "\n".join(res.tail)
    m = _RE_REJ.search(txt)
    if m:
        return False, int(m.group(1)), res
    if res.ok:
        return True, len(events), res
    raise Broken("trace validation run failed without a verdict (%s):\n%s" % (tag, "\n".join(res.tail[-30:])))
