------------------------------- MODULE MC_TokObj -------------------------------
(* Bounded model of TokObj: every pair of evaluations over all sources up to 2 characters (quick) / 3 (thorough) of *)
(* the 7-character alphabet x 3 separators, every triple over the sources up to 1 character, and the life-cycle      *)
(* histories: [setters] eval [done] [setters] eval over sources that use the stock and the custom special characters. *)
EXTENDS TokObj
Alpha7 == {97, 98, 32, 58, 39, 34, 92}
Delims3 == {<<>>, <<58>>, <<58, 32>>}
Src1 == InputsUpTo(1)
Src2 == UNION {[1 .. k -> Alpha7] : k \in 0 .. 2}
Src3 == UNION {[1 .. k -> {97, 32, 58, 34, 92}] : k \in 0 .. 3}
\* custom special characters: quote '|' (124), dquote '#' (35), escape '^' (94)
\*   a^ b   a\ b   |a b|   'a b'   #a:b#   "a:b"   a:b   ^:a
LifeSrc == { <<97, 94, 32, 98>>, <<97, 92, 32, 98>>, <<124, 97, 32, 98, 124>>, <<39, 97, 32, 98, 39>>,
             <<35, 97, 58, 98, 35>>, <<34, 97, 58, 98, 34>>, <<97, 58, 98>>, <<94, 58, 97>> }
LifeSeps2 == {<<>>, <<58>>}
CustomOnly == [q |-> {124}, dq |-> {35}, esc |-> {94}]                      \* quick
CustomAndStock == [q |-> {124, 39}, dq |-> {35}, esc |-> {94}]              \* thorough: setting a stock value back as well
ObsEmitHist(op, args, ret, post) == PrintT(ToJson([h |-> args, lv |-> DebugLevels]))
================================================================================
