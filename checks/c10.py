"""C10: config value expansion is a pure function of line, environment and variable store (Expand.tla)."""
import os, re, json, random, time
from vlib import build, objcheck
from vlib.core import tok, untok, Broken, log
from vlib.graph import Graph
from vlib.tlc import run_tlc
from vlib.replay import run_scripts

PROPERTY = "C10"
LEVEL = "model_checking"
LEVEL_TEXT = ("TLC explores Expand.tla (a character-level step machine, one action per construct, recursive calls as a frame stack, "
              "the %put/%get store) over ALL inputs of up to 6-7 symbols from several small alphabets x environments x store "
              "histories, checking OutputBounded, NeverReadsPastEnd, SingleQuoteOpaque, PrefixSuffixPreserved and PutThenGet on "
              "every step; a second TLC run with a 3-character limit model-checks truncation at every position.  Every (store, env, text) -> "
              "(acceptable results, store') edge TLC emits is executed on spifconf_shell_expand of the current tree under ASan: "
              "text at the start of a CONFIG_BUFF block whose tail holds a non-NUL fill pattern, stack pre-filled 0xAA and 0x55, an exact-size "
              "block when the result is not longer, two passes with different malloc fill; results, store projection and heap "
              "growth are compared.  Long random texts (up to the 20479 limit and beyond it) recorded on the implementation are "
              "validated by TLC against ExpandTrace.tla.")
LEVEL_NOTE = ("Bounded scope for the exhaustive part; beyond it sampled texts only.  Functional results are NOT claimed (only safety, "
              "termination, boundedness, purity) for: % that is no call of get/put/version/appname/random, % inside single quotes, a "
              "single quote inside double quotes, unterminated ${ $( and calls, word splitting of arguments holding quotes or "
              "backslashes (C12), trailing backslash inside an argument; %exec, %dirscan and back-quotes are excluded (C11).  "
              "Deleting a variable is unreachable through expansion and not modelled.  'Never reads past the end' and purity are "
              "decided by ASan + fill patterns on everything explored, not proved.  Trusted: TLC, ASan, harness/expand_replay.c.")
TECHNIQUE = "TLA+ step-machine spec + TLC exhaustive input enumeration replayed on the implementation + TLC trace validation"
DESIGN_REF = "DESIGN.md section 6 C10, 8a Expansion"

ENVS = {   # must agree with EnvMC of spec/MC_Expand.tla
    1: [("HOME", "/h"), ("A", "w$")],
    2: [("A", "v")],
    3: [("HOME", ""), ("A", "")],
}
OP_ACTIONS = ["OpPlain", "OpTilde", "OpEscape", "OpEscapeInSingle", "OpEscapeAtEnd", "OpDollarInSingle", "OpEnvRef",
              "OpEnvRefOpen", "OpQuote", "OpSingleInDouble", "OpCall", "OpCallOpen", "OpUnknownPercent", "OpPercentInSingle",
              "OpReturn", "OpFinish"]


def b(s):
    return [ord(c) for c in s]


def envtok(pairs):
    out = []
    for k, v in pairs:
        out.append(b(k))
        out.append(b(v))
    return tok(out)


ENVTOK = {k: envtok(v) for k, v in ENVS.items()}


def rettok(r):
    return tok({"claimed": r["claimed"], "outs": sorted(r["outs"]), "trunc": r["trunc"], "why": r["why"]})


def env_pairs(a0):
    """args[0] of an edge as stored in the graph (the env token, read back as nested lists) -> [(name, value)]"""
    return [("".join(map(chr, a0[k])), "".join(map(chr, a0[k + 1]))) for k in range(0, len(a0) - 1, 2)]


def text_of(codes):
    return "".join(chr(c) if 32 <= c < 127 else "\\x%02x" % c for c in codes)


def kinds(codes, env):
    """The most specific construct an input contains (coarse on purpose: one key per construct class and failure class)."""
    s = "".join(chr(c) for c in codes)
    if s.endswith("\\") and (len(s) - len(s.rstrip("\\"))) % 2 == 1:
        return "backslash-last"
    m = re.search(r"\$(\{[^}]*\}?|\([^)]*\)?|[A-Za-z0-9_]*)", s)
    if m:
        g = m.group(1)
        form = "brace" if g[:1] == "{" else "paren" if g[:1] == "(" else "bare"
        closed = form == "bare" or (g[-1:] in "})" and len(g) >= 2)
        val = dict(env).get(g.strip("{}()"), "")
        return "$%s-%s%s" % (form, ("set" if val else "unset") if closed else "open", "-at>0" if m.start() > 0 else "")
    m = re.search(r"%([A-Za-z]*)(\(?)", s)
    if m:
        nm = m.group(1).lower()
        if m.group(2) and nm in ("get", "put", "version", "appname", "random", "dirscan"):
            return "call-" + nm
        return "percent-last" if s.endswith("%") else "percent-other"
    for ch, k in (("~", "tilde"), ("\\", "escape"), ("'", "squote"), ('"', "dquote")):
        if ch in s:
            return k
    return "plain"


def keyfn(variant, e, f):
    d = ""
    if f.kind == "inv":
        d = re.sub(r"\d+", "N", f.got)
    elif f.kind in ("crash", "hang", "exit"):
        d = f.sig
    elif f.kind == "ret":
        m = re.match(r"\{(variant|impure)=([\w-]+)", f.got or "")
        d = ("%s" % m.group(1 if m.group(1) == "impure" else 2)) if m else ""
        d = re.sub(r"-(aa|55)$", "", d)
        if "got=NULL" in (f.got or ""):
            d += "/NULL"
    cls = "-"
    if e:
        cls = kinds(e["args"][1], env_pairs(e["args"][0]))
        if not e["ret"]["claimed"]:
            cls += " unclaimed:" + e["ret"]["why"]
        if e["pre"]:
            cls += " store>0"
    return "expand [%s] %s%s" % (cls, f.kind, ("/" + d) if d else "")


def harness(ctx):
    libdir, cflags = build.build_lib(ctx.repo)
    return build.build_harness("expand_replay", ["expand_replay.c"], libdir, cflags)


def asan_opts(fill):
    return ("halt_on_error=1:abort_on_error=0:detect_leaks=0:allocator_may_return_null=1:detect_stack_use_after_return=0:"
            "symbolize=1:print_legend=0:print_summary=1:handle_abort=0:max_malloc_fill_size=32768:malloc_fill_byte=%d:free_fill_byte=221" % fill)


def has_put(codes):
    return "%put" in "".join(chr(c) for c in codes).lower()


GROUPS = {"quick": [["esc", "dol1", "mix"], ["til", "dol2", "pg", "call"]],          # balanced by number of inputs per tier
          "thorough": [["esc", "dol1", "mix"], ["til", "dol2", "pg", "call"]]}


def split_cfgs(ctx, cfg):
    """The committed cfg names all alphabets; for wall time it is run as two TLC processes (2 workers each) over disjoint
    alphabet groups.  The groups share only the empty store, so the union of the emitted edges is the edge set of the whole."""
    from vlib.tlc import SPEC
    txt = open(os.path.join(SPEC, cfg)).read()
    m = re.search(r"^\s*Sel = \{([^}]*)\}\s*$", txt, re.M)
    if not m:
        raise Broken("no Sel line in " + cfg)
    sel = [w.strip().strip('"') for w in m.group(1).split(",")]
    out = []
    for k, grp in enumerate(GROUPS[ctx.tier]):
        mine = [a for a in sel if a in grp]
        if not mine:
            continue
        p = os.path.join(ctx.rundir, "%s.part%d.cfg" % (cfg[:-4], k))
        with open(p, "w") as f:
            f.write(txt[:m.start()] + "  Sel = {%s}\n" % ", ".join('"%s"' % a for a in mine) + txt[m.end():])
        out.append((p, mine))
    if sorted(a for _, g_ in out for a in g_) != sorted(sel):
        raise Broken("alphabet groups do not cover Sel of " + cfg)
    return out


def classify(e):
    """Which scanner actions an emitted edge must have gone through (python-side vacuity evidence for the replayed edges)."""
    s = "".join(chr(c) for c in e["args"][1])
    r = e["ret"]
    acts = set()
    if not r["claimed"]:
        acts.add({"unknown-percent": "OpUnknownPercent", "percent-inside-single": "OpPercentInSingle",
                  "single-quote-inside-double": "OpSingleInDouble", "unterminated-call": "OpCallOpen",
                  "unterminated-env-ref": "OpEnvRefOpen"}.get(r["why"], "GiveUp:" + r["why"]))
        return acts
    acts.add("OpFinish")
    if len(r["outs"]) > 1 and s.endswith("\\"):
        acts.add("OpEscapeAtEnd")
    if "~" in s:
        acts.add("OpTilde")
    if re.search(r"[^~\\%`$\"']", s):
        acts.add("OpPlain")
    if '"' in s or "'" in s:
        acts.add("OpQuote")
    if "%" in s:
        acts.add("OpCall")
        acts.add("OpReturn")
    if "\\" in s and "'" not in s and not s.endswith("\\"):
        acts.add("OpEscape")
    if re.match(r"^[^'\\]*'[^'\\]*\\[^']", s):
        acts.add("OpEscapeInSingle")
    if "$" in s and "'" not in s:
        acts.add("OpEnvRef")
    if re.match(r"^[^'\\]*'[^'\\]*\$", s):
        acts.add("OpDollarInSingle")
    return acts


def tlc_edges(ctx, cfg):
    """Exhaustive TLC runs with edge emission.  The edges are stored in the harness's own step format (args = environment token
    and text, ret = the acceptable results), so a script line is the stored edge.  Unclaimed results of inputs that contain
    %put lead to the UNKNOWN node."""
    from concurrent.futures import ThreadPoolExecutor
    import threading
    g = Graph()
    stats = {"claimed": 0, "unclaimed": {}, "alts": 0}
    acts = {}
    keys = set()
    lock = threading.Lock()

    def on_edge(e):
        r = e["ret"]
        with lock:
            if not r["claimed"]:
                stats["unclaimed"][r["why"]] = stats["unclaimed"].get(r["why"], 0) + 1
                if has_put(e["args"][1]):
                    e["post"] = "UNKNOWN"
            else:
                stats["claimed"] += 1
                if len(r["outs"]) > 1:
                    stats["alts"] += 1
                for kv in e["post"]:
                    keys.add(tuple(kv[0]))
            for a in classify(e):
                acts[a] = acts.get(a, 0) + 1
            e["args"] = [ENVTOK[e["args"][0]], e["args"][1]]
            r["outs"] = sorted(r["outs"])
            g.add(e)

    def one(pc):
        return run_tlc("MC_Expand.tla", pc[0], ctx.rundir, on_edge=on_edge, workers=2, timeout=3000, coverage=False,
                       extra=["-maxSetSize", "4000000"])
    parts = split_cfgs(ctx, cfg)
    with ThreadPoolExecutor(len(parts)) as ex:
        results = list(ex.map(one, parts))
    ok = True
    for (p, mine), res in zip(parts, results):
        ctx.add("states", res.distinct)
        ctx.add("transitions", res.generated)
        ctx.add("edges_emitted", res.edges)
        ctx.cov.setdefault("tlc_runs", []).append({
            "module": "MC_Expand.tla", "cfg": cfg, "alphabets": mine, "distinct_states": res.distinct, "states_generated": res.generated,
            "depth": res.depth, "edges_emitted": res.edges, "wall_s": round(res.wall, 1)})
        if not res.ok:
            ok = False
            ctx.report("spec:%s" % cfg, "TLC reports a violated property of the specification itself: %s" % (res.violation or "")[:600],
                       {"tlc": res.violation, "cfg": cfg, "alphabets": mine})
    ctx.cov["edges"] = {"distinct": g.n_edges(), "store_states": len(g.nodes), "inputs_claimed": stats["claimed"],
                        "inputs_with_alternatives": stats["alts"], "inputs_unclaimed_by_reason": stats["unclaimed"],
                        "edges_through_action": dict(sorted(acts.items()))}
    unt = [a for a in OP_ACTIONS if not acts.get(a)]
    if unt and ok and not os.environ.get("C10_DEV"):
        raise Broken("vacuity: no emitted edge of MC_Expand/%s goes through %s" % (cfg, unt))
    if g.n_edges() == 0 and ok:
        raise Broken("no edges emitted by MC_Expand/%s" % cfg)
    return g, sorted(keys)


def random_walks(ctx, g, lp, exe, variant, hargs, env, n, length):
    """Histories sampled over edges already verified on the implementation (the shared planner's walks() is quadratic in the
    out-degree of the empty store, which is several 10^5 here)."""
    from vlib.graph import Script
    rnd = random.Random(ctx.seed + 5)
    moves, loops = {}, {}
    for u, idxs in g.out.items():
        ok = [i for i in idxs if i in lp.verified]
        moves[u] = [i for i in ok if not g.is_loop(i)]
        loops[u] = [i for i in ok if g.is_loop(i)]
    init = tok([])
    scripts = []
    for k in range(n):
        u, steps = init, []
        for _ in range(length):
            mv, lo = moves.get(u) or [], loops.get(u) or []
            if not mv and not lo:
                break
            i = rnd.choice(mv) if (mv and (not lo or rnd.random() < 0.6)) else rnd.choice(lo)
            steps.append(i)
            u = g.post_key(i)
        if steps:
            scripts.append(Script(10 ** 7 + k, [], steps))
    texts = [sc.text(g) for sc in scripts]
    fails, _, ns, nt = run_scripts(exe, hargs, texts, ctx.rundir, jobs=4, env=env, tag=variant + "-walk")
    by = {sc.sid: sc for sc in scripts}
    for f in fails:
        sc = by[f.sid]
        st = min(f.step, len(sc.targets) - 1)
        e = g.edict(sc.targets[st])
        ctx.report("walk " + keyfn(variant, e, f), "%s: random walk over verified edges failed: %r at step %d" % (variant, f, st),
                   {"variant": variant, "harness_args": hargs, "script_text": sc.text(g), "failure": repr(f), "detail": f.detail})
    if scripts:
        ctx.sample({"variant": variant, "walk": [g.line(i)[:160] for i in scripts[0].targets]})
    ctx.add("traces_validated_against_impl", ns)
    ctx.add("evaluations", nt)
    ctx.cov.setdefault("walks", {})[variant] = {"walks": ns, "steps": nt, "failures": len(fails)}


def limit_model(ctx):
    """Design level only: the same machine with a 3-character limit, so that truncation is model-checked at every position;
    run with TLC's per-action coverage (the large runs are run without -coverage, which doubles their wall time)."""
    res = run_tlc("MC_Expand.tla", "Expand_limit.cfg", ctx.rundir, workers=4, timeout=1500)
    ctx.add("states", res.distinct)
    ctx.add("transitions", res.generated)
    ctx.cov.setdefault("tlc_runs", []).append({
        "module": "MC_Expand.tla", "cfg": "Expand_limit.cfg", "distinct_states": res.distinct, "states_generated": res.generated,
        "depth": res.depth, "wall_s": round(res.wall, 1), "purpose": "truncation at a 3-character limit, all alphabets, per-action coverage (design level, not replayed)"})
    ctx.cov["tlc_runs"][-1]["actions"] = {a: list(v) for a, v in sorted(res.coverage.items()) if a[:2] == "Op"}
    unt = [a for a in OP_ACTIONS if res.coverage.get(a, (0, 0))[1] == 0]
    if unt and res.ok:
        raise Broken("vacuity: actions never taken in MC_Expand/Expand_limit.cfg: %s" % unt)
    if not res.ok:
        ctx.report("spec:Expand_limit.cfg", "TLC reports a violated property of the specification itself: %s" % (res.violation or "")[:600],
                   {"tlc": res.violation, "cfg": "Expand_limit.cfg"})


def ulog_compare(ctx, pa, pb):
    def load(p):
        d = {}
        if os.path.exists(p):
            for line in open(p):
                w = line.split()
                if len(w) == 3:
                    d.setdefault(w[1], set()).add(w[2])
        return d
    A, B = load(pa), load(pb)
    n = 0
    for k in A:
        if k in B:
            n += 1
            if A[k] != B[k]:
                ctx.report("expand unclaimed result differs between heap fills",
                           "an input whose value is not claimed gave different results under malloc_fill_byte 0xAA and 0x55 (hash %s)" % k,
                           {"input_hash": k})
    ctx.add("unclaimed_inputs_compared_across_heap_fills", n)


# ---- direction (B): long random texts recorded on the implementation, validated by TLC -------------------------------
TKEYS = ["ka", "kb", "k_c", "K9"]
WORDS = ["x", "foo", "Bar_9", "a.b", "-", "/usr/lib", "0", "zz=1", "q,r", "#", "{}", "()", "a)b"]


def gen_env(rnd, big):
    names = ["HOME", "A", "B1", "LONG_NAME_7", "x_y", "E"]
    env = []
    for nm in names:
        r = rnd.random()
        if r < 0.25:
            continue                                  # unset
        if r < 0.35:
            env.append((nm, ""))                      # set but empty
        elif big and r < 0.6:
            env.append((nm, "".join(rnd.choice("abcdefgh/._-") for _ in range(rnd.choice([500, 2047, 4096, 9000])))))
        else:
            env.append((nm, "".join(rnd.choice("abc/XYZ_.$~%'\\ ") for _ in range(rnd.randint(1, 12)))))
    return env


def gen_piece(rnd, env, depth=0, unclaimed_ok=False):
    names = ["HOME", "A", "B1", "LONG_NAME_7", "x_y", "E", "NOPE"]
    r = rnd.random()
    if r < 0.30:
        return rnd.choice(WORDS) + rnd.choice(["", " ", "  ", "\t"])
    if r < 0.38:
        return "\\" + rnd.choice("nrtbfaveNRTE\\xz.\"'$~%")
    if r < 0.46 and depth == 0:
        return "~"
    if r < 0.58:
        nm = rnd.choice(names)
        return rnd.choice(["$%s", "${%s}", "$(%s)"]) % nm + rnd.choice(["", "", " ", "/", "-"])
    if r < 0.64 and depth == 0:
        inner = "".join(rnd.choice(["w ", "$A", "~", "\\'", "\\n", "\\\\", '"', "${B1}", "x"]) for _ in range(rnd.randint(0, 6)))
        return "'" + inner + "'"
    if r < 0.70 and depth == 0:
        inner = "".join(rnd.choice(["w ", "$A", "~", "\\t", "\\\"", "${B1}", "x", "%version()"]) for _ in range(rnd.randint(0, 6)))
        return '"' + inner + '"'
    if r < 0.94:
        k = rnd.choice(TKEYS)
        f = rnd.random()
        if f < 0.30:
            return "%%get(%s)" % k
        if f < 0.40:
            return "%%get(%s %s)" % (k, rnd.choice(["dflt", "d2"]))
        if f < 0.62:
            v = rnd.choice(["v1", "longer_value", "%get(" + rnd.choice(TKEYS) + ")" + "z", "$A" if depth == 0 else "w", "%version()"])
            return "%%put(%s %s)" % (k, v)
        if f < 0.70:
            return rnd.choice(["%version()", "%appname()", "%VERSION()", "%AppName(ignored text)"])
        if f < 0.78 and depth == 0:
            return "%%random(%s)" % " ".join(rnd.sample(["r1", "r2", "r3"], rnd.randint(1, 3)))
        if f < 0.86:
            return "%%get(%s)" % gen_piece(rnd, env, depth + 1)
        if f < 0.92:
            return rnd.choice(["%get()", "%put(onlyone)", "%get(a b c)", "%put(a b c)"])
        return "%%put(%s %s)" % (k, "(p)")
    if unclaimed_ok:
        return rnd.choice(["%", "%x", "%%", "'%get(ka)'", "${A", "$(", "%get(ka", "\"it's\"", "%get(\"ka\")", "%version )"])
    return rnd.choice(WORDS)


def gen_text(rnd, env, target, unclaimed_ok):
    parts = []
    n = 0
    while n < target:
        p = gen_piece(rnd, env, 0, unclaimed_ok and rnd.random() < 0.1)
        if n + len(p) > 20479:
            break
        parts.append(p)
        n += len(p)
    s = "".join(parts)
    return s.replace("`", "")


def gen_traces(rnd, nscripts, nlong):
    """scripts = histories of 1..4 expansions against one store: [(env, text), ...]"""
    scripts = []
    for k in range(nscripts):
        big = k < nlong
        hist = []
        for _ in range(1 if big else rnd.randint(1, 4)):
            env = gen_env(rnd, big and rnd.random() < 0.6)
            if big:
                target = rnd.choice([20479, 20479, 20400, 19000, 12000])
            else:
                target = rnd.choice([0, 5, 20, 60, 150, 400, 900])
            t = gen_text(rnd, env, target, unclaimed_ok=(k % 5 == 4))
            if big:
                t = t.replace("%random(", "%get(ka")        # alternatives are not followed up to the limit
            if big and rnd.random() < 0.5:
                # finish exactly at / around the limit with constructs that matter there
                tail = rnd.choice(["'\\x'", "\\n", "$A", "~", "%version()", "xyz", "'\\'"])
                t = (t + "p" * 20479)[:20479 - len(tail) - rnd.choice([0, 0, 1, 2])] + tail
                t = t[:20479]
            hist.append((env, t))
        scripts.append(hist)
    return scripts


def at_limit_family(tier):
    """Deterministic texts whose ideal expansion ends exactly at, just below and just above the 20479-character limit
    with each kind of construct as the last thing (results at and over the limit, DESIGN.md C10 'Beyond')."""
    LIM = 20479
    env = [("HOME", "/home/u"), ("A", "VALUE_7"), ("E", "")]
    out = []
    span = range(LIM - 2, LIM + 3) if tier == "quick" else range(LIM - 4, LIM + 6)
    for cons, val in (("$A", "VALUE_7"), ("${A}", "VALUE_7"), ("~", "/home/u"), ("%version()", "1.2"), ("%appname()", "ap-1.2"),
                      ("\\n", "\n"), ("'\\x'", "'\\x'"), ("\\", "\\"), ("$E", ""), ("q", "q")):
        for T in span:
            npl = T - len(val)
            if npl + len(cons) > LIM:
                continue
            out.append([(env, "p" * npl + cons)])
            if cons in ("$A", "~", "'\\x'"):
                out.append([(env, "p" * (npl - 3) + cons + "xyz")])
    # constructs that straddle the limit in the OUTPUT while the input is shorter (a tilde in front grows the text by 6)
    for cons in ("'\\x'", "'\\''", "\\n", "\\\\", "$A", "~", "%version()", "${E}", "\"\\t\""):
        for T in span:
            npl = T - 7 - len(cons)
            out.append([(env, "~" + "p" * npl + cons)])
            out.append([(env, "~" + "p" * npl + cons + "zz")])
    # a value much longer than the room that is left, and expansion inside a call argument reaching the limit
    big = [("HOME", "h" * 9000), ("A", "a" * 20479), ("B1", "b" * 20470)]
    out.append([(big, "~~~")])
    out.append([(big, "x$A")])
    out.append([(big, "$A")])
    out.append([(big, "$B1$B1")])
    out.append([(big, "%put(ka $B1)%get(ka)12345678%get(ka)")])
    out.append([(big, "%get(zz ~~~)")])
    return [h for h in out if all(len(t) <= LIM for _, t in h)]      # callers' contract: the text fits the line buffer


PROG_DEFAULT = {"@N": "ap", "@V": "1.2"}      # program name / version unless a step's environment sets @N / @V


def reg(name, kind):
    """history item: the application registers one more built-in (lifecycle step, OpRegister of Expand.tla)"""
    return ([("@R", str(kind))], name)


def is_reg(env):
    return bool(env) and env[0][0] == "@R"


def record(ctx, exe, scripts, tag="rec", keyprefix=""):
    """Runs histories [(env, text), ...] on the implementation in record mode.  Returns (events, index, texts, nrecorded)."""
    keytok = tok([b(k) for k in sorted(TKEYS)])
    texts = []
    for sid, hist in enumerate(scripts, 1):
        lines = ["S %d" % sid]
        for env, t in hist:
            if is_reg(env):
                lines.append("register %s %s = ? ?" % (tok(b(t)), env[0][1]))
            else:
                lines.append("expand %s %s = ? ?" % (envtok(env), tok(b(t))))
        lines.append("E")
        texts.append("\n".join(lines) + "\n")
    fails, recs, ns, nt = run_scripts(exe, ["aa", keytok], texts, ctx.rundir, jobs=4, tag=tag,
                                      env={"ASAN_OPTIONS": asan_opts(170)})
    bad = set()
    for f in fails:
        bad.add(f.sid)
        env, t = scripts[f.sid - 1][min(f.step, len(scripts[f.sid - 1]) - 1)]
        d = re.sub(r"\d+", "N", f.got) if f.kind == "inv" else f.sig
        ctx.report("%strace-recording expand [%s] %s/%s" % (keyprefix, kinds(b(t), env), f.kind, d),
                   "recording a random text failed: %r; input %r env %r" % (f, t[:200], env),
                   {"variant": "pass-aa", "harness_args": ["aa", keytok], "script_text": texts[f.sid - 1], "failure": repr(f), "detail": f.detail})
    by = {}
    for sid, step, ret, state in recs:
        by.setdefault(sid, {})[step] = (ret, state)
    events, index = [], []
    for sid in sorted(by):
        if sid in bad:
            continue
        hist = scripts[sid - 1]
        if len(by[sid]) != len(hist):
            raise Broken("recording of script %d is incomplete" % sid)
        for step, (env, t) in enumerate(hist):
            ret, state = by[sid][step]
            if is_reg(env):
                events.append({"op": "register", "reset": step == 0, "name": b(t), "kind": int(env[0][1]), "ret": int(ret)})
                index.append((sid, step))
                continue
            if ret == "IMPURE":
                ctx.report("%strace-recording expand [%s] impure" % (keyprefix, kinds(b(t), env)),
                           "the result differs between the two stack/heap fill patterns; input %r env %r" % (t[:200], env),
                           {"variant": "pass-aa", "harness_args": ["aa", keytok], "script_text": texts[sid - 1]})
                break
            isnull = ret == "NULL"
            prog = dict(PROG_DEFAULT)
            prog.update({k: v for k, v in env if k in ("@N", "@V")})
            hay = t + " " + " ".join(v for _, v in env)
            dirs = [{"path": b(p), "isdir": d["isdir"], "ents": [{"name": b(nm), "kind": kd} for nm, kd in d["ents"]]}
                    for p, d in sorted(FIXTURES.items()) if p in hay]
            events.append({"op": "expand", "reset": step == 0, "dirs": dirs, "env": [[b(k), b(v)] for k, v in env if k[:1] != "@"],
                           "prog": [b(prog["@N"]), b(prog["@V"])], "input": b(t), "isnull": isnull,
                           "got": [] if isnull else untok(ret), "store": untok(state)})
            index.append((sid, step))
    return events, index, texts, len([sid for sid in by if sid not in bad])


def validate(ctx, events, tag="c10"):
    """TLC on ExpandTrace.tla: one verdict {l, ok, claimed, why, trunc, alts} per event."""
    path = os.path.join(ctx.rundir, "trace-%s.ndjson" % tag)
    with open(path, "w") as f:
        for e in events:
            f.write(json.dumps(e, separators=(",", ":")) + "\n")
    verdicts = []
    res = run_tlc("ExpandTrace.tla", "ExpandTrace.cfg", ctx.rundir, on_edge=verdicts.append, workers=1, timeout=2400,
                  env={"TRACE": path}, coverage=False)
    if res.violation or not res.ok:
        raise Broken("trace validation run failed (ExpandTrace): %s\n%s" % (res.violation, "\n".join(res.tail[-20:])))
    uniq = {}
    for v in verdicts:          # TLC may evaluate the observation of one step more than once; the copies must be identical
        if uniq.setdefault(v["l"], v) != v:
            raise Broken("contradictory verdicts for trace event %d" % v["l"])
    verdicts = [uniq[k] for k in sorted(uniq)]
    if len(verdicts) != len(events) or not any("TRACE_DONE" in x for x in res.tail):
        raise Broken("trace validation consumed %d of %d events" % (len(verdicts), len(events)))
    return verdicts, res


def filler(n, alphabet="abcdefgh/._-"):
    return (alphabet * (n // len(alphabet) + 1))[:n]


THRESHOLDS = (8, 16, 32, 64, 128, 256, 512, 1024, 2048, 4096, 8192)
SIZES = sorted(set(n + d for n in THRESHOLDS for d in (-1, 0, 1)) | {126, 129, 254, 258, 1000, 5000})


def size_family(tier):
    """Round 3, class 1 (size thresholds): every piece of state a built-in or a substitution reads - HOME, a variable's value,
    a variable's name, program name and version, a stored value, an argument, the plain text itself - at lengths n-1, n, n+1
    around the powers of two and the library's own buffer sizes (127/128 name buffer, 255/256 appname buffer, 4096), one
    expansion each, validated by TLC."""
    out = []
    for n in SIZES:
        v = filler(n)
        out.append([([("HOME", v)], "x~y")])
        out.append([([("A", v)], "x$A y\"${A}\"$(A)")])
        out.append([([("@N", filler(max(n - 4, 0), "Prog_Name")), ("@V", "1.2")], "[%appname()|%version()]")])     # name-1.2 has n characters
        out.append([([("@N", "ap"), ("@V", filler(max(n - 3, 0), "0.9"))], "[%appname()|%version()]")])
        out.append([([], "%%put(ka %s)" % v), ([], "[%get(ka)]%get(kb d)")])
        out.append([([], "[%%get(kb %s)]" % v)])
        out.append([([], v)])
        out.append([([], v + "\\n$E")])
        if n <= 130:
            nm = filler(n, "NAME_9")
            out.append([([(nm, "val")], "x${%s}y$(%s)z$%s-" % (nm, nm, nm))])
    return [h for h in out if all(len(t) <= 20479 for _, t in h)]


def nest(d, inner, call="%get(zz "):
    return "[" + call * d + inner + ")" * d + "]"


DEPTHS = {"quick": [1, 2, 3, 4, 7, 8, 9, 15, 16, 17, 31, 32, 33, 62, 63, 64, 65, 66, 70, 127, 128, 129],
          "thorough": list(range(1, 71)) + [126, 127, 128, 129, 130]}


def depth_family(tier):
    """Round 3, class 1 for nesting: %calls nested 1..70 (and around 128) deep, innermost first (the spec's frame stack has
    no depth bound, TLC evaluates the expectation)."""
    out = []
    for d in DEPTHS[tier]:
        out.append([([], nest(d, "w%d" % d))])                                        # default chain: [w<d>]
        if d <= 70:
            out.append([([], "%put(ka ka)"), ([], nest(d, "ka", "%get("))])           # store chain: [ka]
            out.append([([("A", "q")], nest(d, "$A", "%version(") + nest(d, "\\t", "%AppName("))])
    return out


def purity_family(tier):
    """Round 3, class 3 (state left behind by earlier calls): the same text expanded before and after an adversarial prelude of
    deep, refused and failed expansions must give the same result.  No %put anywhere, so the histories run in one process
    after each other and whatever static state a prelude leaves behind also meets every later history."""
    env = [("HOME", "/home/u"), ("A", "VALUE_7"), ("E", "")]
    big = [("HOME", "h" * 9000)]
    probes = [nest(63, "p"), nest(62, "p") + nest(3, "q"), "a\\tb ~ $A ${E}'$A'\"$A\" %get(zz dflt)%version()", nest(20, "$A"),
              "%appname()", "x"]
    preludes = [[nest(64, "x")], [nest(65, "x"), nest(70, "x")], [nest(64, "x")] * 3, [nest(64 + k, "x") for k in range(8)],
                ["%get(a", "%get(%get(a)", "%version("], ["%get()", "%put(a)", "%get(a b c)", "%x", "%"],
                ["${A", "$(", "x\\"], ["%get(a))(", "'%get(a)'"], ["~~~", "~~~" + "p" * 5000]]
    out = []
    if tier == "quick":
        probes, preludes = probes[:4], [preludes[k] for k in (0, 3, 4, 5, 6, 8)]
    for p in probes:
        for q in preludes:
            out.append([(env, p)] + [(big if x.startswith("~~~") else env, x) for x in q] + [(env, p)])
    return out


def byte_family(tier):
    """Round 3, class 2 (values outside the small alphabets): every byte value 1..255 in every syntactic position of a value:
    alone, inside text, escaped, inside both kinds of quotes, after $ ~ %, as argument, as stored value, as variable value."""
    out = []
    for c in range(1, 256):
        if c == 96:
            continue                      # back-quote: C11
        ch = chr(c)
        hist = [([], ch), ([], "x" + ch + "y"), ([], ch + "x"), ([], "\\" + ch + "z"), ([], "'" + ch + "'" + ch), ([], '"' + ch + '"'),
                ([("A", "v")], "$A" + ch + "$" + ch + "A"), ([("HOME", "/h")], "~" + ch + "~"), ([], "%get(kb " + ch + ")"),
                ([], "%get(" + ch + " d)")]
        if c != 10:      # setenv values may hold any byte but NUL
            hist.append(([("A", "p" + ch + "q")], "[$A]${A}"))
        out.append(hist)
        out.append([([], "%put(ka " + ch + "x)"), ([], "[%get(ka)]")])
    return out


def deep_safety_family(tier):
    """Nesting depths TLC cannot evaluate in reasonable time (every frame of the model carries its text): executed for memory
    safety, termination and purity only; the value is not compared."""
    ds = [400, 1000] if tier == "quick" else [400, 700, 1000, 1500, 2200]
    return [[([], nest(d, "w%d" % d))] for d in ds] + [[([], nest(400, "x", "%version("))]]


def byte_store_family(tier):
    """Round 4 (full-range values crossed with a NON-EMPTY store): every byte value that can be part of a word as first and as
    last character of a variable NAME, put / looked up / replaced in a store that already holds ordinary names sorting before
    and after it; the projection probes the new names too (@K)."""
    out = []
    skip = set(b("~\\%`$\"'()")) | {9, 10, 11, 12, 13, 32}
    for c in range(1, 256):
        if c in skip:
            continue
        ch = chr(c)
        k1, k2 = ch + "k", "k" + ch
        env = [("@K", k1), ("@K", k2), ("@K", "mm"), ("A", "v")]
        out.append([(env, "%put(kb v0)%put(mm v1)"), (env, "%%put(%s w1)" % k1), (env, "[%%get(%s)]" % k1), (env, "%%put(%s w2)" % k2),
                    (env, "[%%get(%s)|%%get(%s)|%%get(kb)|%%get(mm)]" % (k2, k1)), (env, "%%put(%s w3)" % k1),
                    (env, "[%%get(%s d)|%%get(%s d)|%%get(%sx d)]" % (k1, k2, k1))])
    return out


def registration_family(tier):
    """Round 4, class 5 (lifecycle / registration tables): the application registers k more built-ins between two expansions,
    k = 1..41 (the table of the implementation doubles at its 10th, 20th, 40th entry; 7 are the library's own), and one long
    history alternates expansion and registration through every table size.  The expansions call core built-ins and the
    first, the last and the last-but-one registered function, so whatever the implementation remembered about the previous
    call meets a grown table.  Validated by TLC with the model's OpRegister / reg."""
    env = [("A", "v")]
    names = ["fn%d" % i if i % 2 else "g%dx" % i for i in range(1, 42)]

    def probe(k):
        t = "[%version()|%get(zz d)"
        if k >= 1:
            t += "|%" + names[0] + "(x $A)"
        if k >= 2:
            t += "|%" + names[k - 1].upper() + "(y %" + names[k - 2] + "(z))"
        return t + "]"
    long = [(env, probe(0))]
    for k in range(1, 42):
        long += [reg(names[k - 1], (k - 1) % 3), (env, probe(k))]
    out = [long, [(env, "%" + names[0] + "(before)")] + long[1:]]
    for k in range(1, 42):
        out.append([(env, probe(0))] + [reg(names[i], i % 3) for i in range(k)] + [(env, probe(k)), (env, probe(k))])
        if k in (2, 3, 4, 12, 13, 14, 32, 33, 34, 41) or (tier != "quick" and k >= 2):      # the call planted before the table grows is itself an application built-in
            out.append([reg(names[0], 0), (env, probe(1))] + [reg(names[i], i % 3) for i in range(1, k)] + [(env, probe(k))])
    return out


FIXTURES = {}       # path -> {"isdir": bool, "ents": [(name, kind), ...]}: what record() tells the trace spec about the file system


def make_fixtures(root):
    """Round 5, class 6 (the environment as input): directories holding EVERY file type - regular file, directory, link to a
    file (inside and outside the directory, and a link to a link), link to a directory, dangling link, fifo, dot file - plus an
    empty directory, a directory without a single regular file, a link to a directory, a regular file and a missing path used
    AS the directory.  The description handed to the spec says what each entry IS; which of them %dirscan lists is the
    spec's rule (StatRegular), not the generator's."""
    import shutil
    shutil.rmtree(root, ignore_errors=True)
    os.makedirs(root)
    FIXTURES.clear()

    def mk(dname, ents):
        d = os.path.join(root, dname)
        os.makedirs(d)
        for nm, kind, *target in ents:
            p = os.path.join(d, nm)
            if kind == "file":
                open(p, "w").write("x")
            elif kind == "dir":
                os.makedirs(p)
            elif kind == "fifo":
                os.mkfifo(p)
            else:
                os.symlink(target[0], p)
        FIXTURES[d] = {"isdir": True, "ents": [(e[0], e[1]) for e in ents]}
        return d
    open(os.path.join(root, "outside.txt"), "w").write("o")
    os.makedirs(os.path.join(root, "elsewhere"))
    alltypes = mk("all", [("a.png", "file"), ("sub", "dir"), ("l_in", "link-to-file", "a.png"), ("l_out", "link-to-file", "../outside.txt"),
                          ("l_dir", "link-to-dir", "sub"), ("l_gone", "dangling-link", "no-such-file"), ("pipe", "fifo"), (".rc", "file")])
    links = mk("links", [("one", "link-to-file", "../outside.txt"), ("two", "link-to-file", "one"), ("up", "link-to-dir", ".."),
                         ("loop", "dangling-link", "loop")])
    nofile = mk("nofile", [("d1", "dir"), ("ld", "link-to-dir", "../elsewhere"), ("gone", "dangling-link", "../nowhere"), ("q", "fifo")])
    empty = mk("empty", [])
    single = mk("single", [("only.txt", "file")])
    viaLink = os.path.join(root, "to_all")
    os.symlink("all", viaLink)
    FIXTURES[viaLink] = dict(FIXTURES[alltypes])
    FIXTURES[os.path.join(root, "outside.txt")] = {"isdir": False, "ents": []}
    FIXTURES[os.path.join(root, "missing")] = {"isdir": False, "ents": []}
    return [alltypes, links, nofile, empty, single, viaLink, os.path.join(root, "outside.txt"), os.path.join(root, "missing")]


def filesystem_family(tier, paths):
    out = []
    for p in paths:
        out.append([([], "[%%dirscan(%s)]" % p), ([("D", p)], "x \"%%DIRSCAN($D)\"y%%dirscan( %s )" % p),
                    ([], "%%dirscan(%s %s)|%%dirscan()" % (p, p)), ([], "[%%get(kb %%dirscan(%s))]" % p)])
    return out


def trace_validation(ctx, exe):
    rnd = random.Random(ctx.seed + 10)
    nscripts, nlong = (260, 8) if ctx.tier == "quick" else (3000, 40)
    scripts = gen_traces(rnd, nscripts, nlong) + at_limit_family(ctx.tier)
    fams = {"random+at-limit": len(scripts)}
    pur0 = None
    for name, f in (("size-thresholds", size_family), ("nesting-depth", depth_family), ("purity-across-calls", purity_family),
                    ("all-byte-values", byte_family), ("byte-values-as-names-in-a-non-empty-store", byte_store_family),
                    ("registrations-between-expansions", registration_family)):
        if name == "purity-across-calls":
            pur0 = len(scripts)
        add = f(ctx.tier)
        fams[name] = len(add)
        scripts += add
    npur = fams["purity-across-calls"]
    fs = filesystem_family(ctx.tier, make_fixtures(os.path.join(ctx.rundir, "fx")))
    fams["file-system-as-environment"] = len(fs)
    scripts += fs
    events, index, texts, nrec = record(ctx, exe, scripts)
    if not events:
        raise Broken("no trace events recorded")
    verdicts, res = validate(ctx, events)
    nclaimed = ntrunc = nmax = 0
    why = {}
    for v in verdicts:
        sid, step = index[v["l"] - 1]
        env, t = scripts[sid - 1][step]
        ev = events[v["l"] - 1]
        if v["claimed"]:
            nclaimed += 1
            ntrunc += 1 if v["trunc"] else 0
            nmax = max(nmax, len(ev.get("got", [])))
        else:
            why[v["why"]] = why.get(v["why"], 0) + 1
        if not v["ok"]:
            ctx.report("trace-rejected expand [%s]%s" % (kinds(b(t), env), " at-limit" if v["trunc"] or len(t) > 20000 else ""),
                       "TLC (ExpandTrace) does not accept the recorded result of event %d: input(%d chars) %r... env %r got(%d chars) %r... store %r" % (
                           v["l"], len(t), t[:120], [(k, x[:20]) for k, x in env], len(ev.get("got", [])), text_of(ev.get("got", [])[:120]), ev.get("store")),
                       {"variant": "pass-aa", "history": [[list(map(list, env_)), t_] for env_, t_ in scripts[sid - 1]], "step": step,
                        "fixture_root": os.path.join(ctx.rundir, "fx"),
                        "got": text_of(ev.get("got", []))[:2000], "store": ev.get("store")})
    # purity across calls: first and last event of a purity history are the same text in the same environment
    first = {}
    for k, (sid, step) in enumerate(index):
        first.setdefault(sid, []).append(k)
    ncmp = 0
    for sid in range(pur0 + 1, pur0 + npur + 1):
        ks = first.get(sid) or []
        if len(ks) != len(scripts[sid - 1]):
            continue
        a, z = events[ks[0]], events[ks[-1]]
        ncmp += 1
        if (a["isnull"], a["got"]) != (z["isnull"], z["got"]):
            env, t = scripts[sid - 1][0]
            ctx.report("purity-across-calls expand [%s]" % kinds(b(t), env),
                       "the same text in the same environment and store gives %r before and %r after a prelude of deep/refused/failed expansions (%s)" % (
                           text_of(a["got"])[:80], "NULL" if z["isnull"] else text_of(z["got"])[:80], [x[:24] for _, x in scripts[sid - 1][1:-1]]),
                       {"variant": "pass-aa", "history": [[list(map(list, env_)), t_] for env_, t_ in scripts[sid - 1]], "step": len(ks) - 1})
    deep = deep_safety_family(ctx.tier)
    ev2, _, _, nrec2 = record(ctx, exe, deep, tag="deep", keyprefix="deep-nesting(>=400) ")
    ctx.cov["deep_nesting_safety_only"] = {"histories": len(deep), "completed": nrec2,
                                           "results_not_null": sum(1 for e in ev2 if not e["isnull"])}
    ctx.add("purity_across_calls_pairs", ncmp)
    ctx.cov["trace_families"] = fams
    ctx.add("trace_events_validated", len(verdicts))
    ctx.add("traces_validated_against_impl", nrec)
    ctx.cov["trace"] = {"scripts": len(scripts), "events": len(events), "events_claimed": nclaimed, "events_truncated_at_limit": ntrunc,
                        "longest_input": max(len(e.get("input", [])) for e in events), "longest_result": nmax,
                        "events_unclaimed_by_reason": why, "tlc_wall_s": round(res.wall, 1), "tlc_states": res.distinct}
    ctx.sample({"trace_event": {"input": text_of(events[0].get("input", []))[:160], "got": text_of(events[0].get("got", []))[:160]}})


def run(ctx):
    exe = harness(ctx)
    cfg = "Expand_quick.cfg" if ctx.tier == "quick" else "Expand_thorough.cfg"
    limit_model(ctx)
    g, keys = tlc_edges(ctx, cfg)
    keytok = tok([list(k) for k in keys])
    ctx.cov["store_key_universe"] = [text_of(k) for k in keys]
    inits = [tok([])]
    nwalks, wlen = (300, 6) if ctx.tier == "quick" else (3000, 8)
    ulogs = []
    for name, pat, fill in (("pass-aa", "aa", 170), ("pass-55", "55", 85)):
        ul = os.path.join(ctx.rundir, "ulog-%s.txt" % name)
        ulogs.append(ul)
        env = {"ASAN_OPTIONS": asan_opts(fill), "XR_ULOG": ul}
        lp = objcheck.replay_cover(ctx, g, inits, exe, name, [pat, keytok], keyfn, walks=(0, 0), env=env, jobs=4)
        if not ctx.violations:
            random_walks(ctx, g, lp, exe, name, [pat, keytok], env, nwalks, wlen)
    ulog_compare(ctx, *ulogs)
    trace_validation(ctx, exe)
    ctx.cov["exhaustive"] = True
    ctx.cov["rule"] = ("every (store, environment, text) -> (acceptable results, store') edge TLC emits for Expand in the bounded scope is "
                       "executed once per pass as the last step of a script whose prefix consists of already verified edges (scripts that "
                       "change the store run in a forked child); result, projected store, heap growth, NUL termination and ASan "
                       "verdict are checked after every step; plus random walks over verified edges and TLC-validated long texts")
    ctx.assumptions += ["libast_debug_level = 0 (ASSERT failures warn and return)", "ASan build of the current tree (clang -O1)",
                        "program name 'ap', version '1.2'; environment = exactly the variables of the step (clearenv first)"]


def replay(ctx, path):
    d = json.load(open(path))
    rp = d.get("replay") or {}
    exe = harness(ctx)
    if rp.get("history"):
        # a recorded history rejected by the trace specification: record it again and let TLC judge it again
        hist = [([tuple(p) for p in env], t) for env, t in rp["history"]]
        made = None
        if rp.get("fixture_root") and any(rp["fixture_root"] in t or any(rp["fixture_root"] in p[1] for p in env) for env, t in hist):
            # the history names directory fixtures of the run that found it: build the same fixtures at the same place again
            import shutil, atexit
            made = os.path.dirname(rp["fixture_root"])
            existed = os.path.exists(made)
            make_fixtures(rp["fixture_root"])
            if not existed:
                atexit.register(lambda: shutil.rmtree(made, ignore_errors=True))
        events, index, texts, nrec = record(ctx, exe, [hist], tag="replay")
        bad = len(ctx.violations)
        if events:
            verdicts, res = validate(ctx, events, tag="replay")
            for v in verdicts:
                print("event %d: %s%s" % (v["l"], "accepted" if v["ok"] else "REJECTED", "" if v["claimed"] else " (value not claimed: %s)" % v["why"]))
                bad += 0 if v["ok"] else 1
            if len(events) == len(hist) > 1 and hist[0] == hist[-1]:
                a, z = events[0], events[-1]
                same = (a["isnull"], a["got"]) == (z["isnull"], z["got"])
                print("purity across calls (first and last event are the same text): %s" % ("same result" if same else "DIFFERENT results"))
                bad += 0 if same else 1
        print("REPRODUCED" if bad else "not reproduced: the history is accepted")
        return 1 if bad else 0
    env = {"ASAN_OPTIONS": asan_opts(170 if (rp.get("variant") or "pass-aa") == "pass-aa" else 85)}
    return objcheck.replay_file(exe, ["aa", "[]"], path, ctx.rundir, env=env)
