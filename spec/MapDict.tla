-------------------------------- MODULE MapDict --------------------------------
(* C03 (and the map half of C05/C06): the map interface of libast as ONE finite          *)
(* dictionary.  The array, linked_list and dlinked_list map classes must all refine it.  *)
(*                                                                                       *)
(* State:  a    - slot A, the map under test: a function Keys -> Vals \cup {ABSENT}       *)
(*         b,bl - slot B: an independent copy produced by Dup (bl = it is live)           *)
(*         it   - NIL or the number of pairs an iterator over A has already yielded       *)
(*         held - what the CALLER still owns from its last set_keep(): 0 nothing,         *)
(*                1 its key and value objects, 2 the same objects after it scribbled on   *)
(*                them.  The map owns copies, so none of this may ever show in a.         *)
(* Keys are 1..NK and values 1..NV (the harness makes spif_str objects whose text orders  *)
(* like the number).  Probe arguments range over 0..NK+1 / 1..NV+1: 0 is below every      *)
(* storable key, NK+1 above every one, NV+1 is a value no map ever holds.                 *)
(* Rule kinds (DESIGN.md 3): S = stated by the property, C = as-built convention.         *)
EXTENDS Integers, Sequences, FiniteSets, TLC, Json

CONSTANTS NK,         \* number of keys
          NV,         \* number of values
          Shades,     \* values come in groups of Shades that COMPARE EQUAL yet are different values (1: all values differ under comp)
          BDepth,     \* model bound: while a copy is live, A and B differ in at most BDepth keys
          Obs(_, _, _, _)   \* observation hook (op, args, ret, post-state)

VARIABLES a, b, bl, it, held
vars == <<a, b, bl, it, held>>

Keys      == 1 .. NK
Vals      == 1 .. NV
ProbeKeys == 0 .. (NK + 1)
ProbeVals == 1 .. (NV + 1)
ABSENT    == 0
NIL       == -1
NOPAIR    == <<>>                      \* "NULL" where a pair <<k, v>> is expected
EmptyMap  == [k \in Keys |-> ABSENT]

------------------------------------------------------------------------------------------
(* the ideal dictionary *)
Lookup(m, k)  == IF k \in Keys THEN m[k] ELSE ABSENT
Has(m, k)     == Lookup(m, k) # ABSENT
Dom(m)        == {k \in Keys : m[k] # ABSENT}
SetRes(m, k, v) == [replaced |-> m[k] # ABSENT, m |-> [m EXCEPT ![k] = v]]          \* S
RemRes(m, k)  == IF Has(m, k) THEN [ret |-> <<k, m[k]>>, m |-> [m EXCEPT ![k] = ABSENT]]   \* S: the pair, once
                              ELSE [ret |-> NOPAIR, m |-> m]
(* listings: ascending key order (S) *)
KeysAsc(m)    == SelectSeq([i \in 1 .. NK |-> i], LAMBDA k : m[k] # ABSENT)
ValsAsc(m)    == LET ks == KeysAsc(m) IN [i \in 1 .. Len(ks) |-> m[ks[i]]]
PairsAsc(m)   == LET ks == KeysAsc(m) IN [i \in 1 .. Len(ks) |-> <<ks[i], m[ks[i]]>>]
Size(m)       == Cardinality(Dom(m))
Diff(x, y)    == Cardinality({k \in Keys : x[k] # y[k]})

(* what the harness can observe of a state *)
BView(y, yl) == IF yl THEN [live |-> TRUE, s |-> PairsAsc(y)] ELSE [live |-> FALSE, s |-> <<>>]
St(x, y, yl, z, h) == [a |-> PairsAsc(x), b |-> BView(y, yl), it |-> z, held |-> h]
Pre == St(a, b, bl, it, held)

Step(op, args, ret, x, y, yl, z, h) ==
    /\ a' = x /\ b' = y /\ bl' = yl /\ it' = z /\ held' = h
    /\ Obs(op, args, ret, St(x, y, yl, z, h))
StepA(op, args, ret, x) == Step(op, args, ret, x, b, bl, it, held)      \* touches slot A only
StepQ(op, args, ret)    == Step(op, args, ret, a, b, bl, it, held)      \* a query

(* program discipline of the modelled caller *)
Plain   == it = NIL /\ held = 0                   \* no iterator alive, caller holds no argument objects
NOBOUND == 100000                                  \* BDepth >= NOBOUND: no bound (trace validation; Diff is not evaluated)
Room    == bl => (IF BDepth >= NOBOUND THEN TRUE ELSE Diff(a, b) < BDepth)   \* model bound on how far the two copies drift apart
CanMutA == Plain /\ Room
CanMutB == Plain /\ bl /\ Room

------------------------------------------------------------------------------------------
(* Object classes (round 4: mixed-class elements).  Keys, values and probes are handed over as objects of one of two
   comparison-compatible classes: 1 = spif_str, 2 = spif_url (a url IS a str and compares by its text).  S: the dictionary
   is "keyed by object comparison", so the class of an argument or of a stored object must never show in any result; the
   class arguments below therefore do not enter the next-state or the return value at all - that IS the specification.
   (Only while no copy is live may an argument be a url: model bound.) *)
Classes == 1 .. 2
ClsOK(c) == c \in Classes /\ (IF c = 1 THEN TRUE ELSE ~bl)
(* mutators of A *)
\* set(k, v); the caller then scribbles over its own key and value objects and deletes them, all inside the step
OpSet(k, v, kc, vc) == LET r == SetRes(a, k, v) IN
               /\ CanMutA /\ ClsOK(kc) /\ ClsOK(vc) /\ StepA("set", <<k, v, kc, vc>>, r.replaced, r.m)
\* C: set(pair, NULL) unpacks the pair
OpSetPair(k, v, kc, vc) == LET r == SetRes(a, k, v) IN
               /\ CanMutA /\ ClsOK(kc) /\ ClsOK(vc) /\ StepA("set_pair", <<k, v, kc, vc>>, r.replaced, r.m)
\* set(k, v) where the caller keeps its two objects for a while ...
OpSetKeep(k, v, kc, vc) == LET r == SetRes(a, k, v) IN
               /\ CanMutA /\ ~bl /\ ClsOK(kc) /\ ClsOK(vc) /\ Step("set_keep", <<k, v, kc, vc>>, r.replaced, r.m, b, bl, it, 1)
\* ... changes them ...
OpCallerMutates == /\ held = 1 /\ Step("caller_mutates", <<>>, TRUE, a, b, bl, it, 2)       \* S: no-op on the map
\* ... and deletes them
OpCallerDeletes == /\ held \in {1, 2} /\ Step("caller_deletes", <<>>, TRUE, a, b, bl, it, 0)  \* S: no-op on the map
\* Aliased arguments (round 3): the argument IS an object the map itself owns.  S: "the map holds its own copies", so
\* handing it its own objects must behave exactly like handing it equal caller-owned ones.  (Only while no copy is live:
\* model bound.)
\* set(k, get(j)): the value argument is the value object the map stores under j (j = k: the touch idiom)
OpSetFrom(k, j) == LET r == SetRes(a, k, a[j]) IN
               /\ CanMutA /\ ~bl /\ Has(a, j) /\ StepA("set_from", <<k, j>>, r.replaced, r.m)
\* Aliasing at depth 2 (round 4): set(k, c) where c is a COMPONENT object of the value stored under j (the host part of a
\* stored url whose text is all host) - or that value itself when it has no such component (a plain str).  The component
\* has the same text, so the effect is that of set_from.
OpSetComponent(k, j) == LET r == SetRes(a, k, a[j]) IN
               /\ CanMutA /\ ~bl /\ Has(a, j) /\ StepA("set_component", <<k, j>>, r.replaced, r.m)
\* set(p, NULL) where p is the map's OWN pair for j (as handed out by its iterator): nothing changes
OpSetOwnPair(j) == /\ CanMutA /\ ~bl /\ Has(a, j) /\ StepA("set_own_pair", <<j>>, TRUE, a)
\* set(key object of the map's own pair for j, fresh v)
OpSetOwnKey(j, v, vc) == LET r == SetRes(a, j, v) IN
               /\ CanMutA /\ ~bl /\ Has(a, j) /\ ClsOK(vc) /\ StepA("set_own_key", <<j, v, vc>>, r.replaced, r.m)
\* remove(key object of the map's own pair for j)
OpRemoveOwnKey(j) == LET r == RemRes(a, j) IN
               /\ CanMutA /\ ~bl /\ Has(a, j) /\ StepA("remove_own_key", <<j>>, r.ret, r.m)
\* Macro step for the size sweeps (round 3): set(k, v) for k = lo, lo+st, .. <= hi, in that order, each with fresh
\* caller objects that are deleted afterwards.  ret = how many of them replaced an entry.  mix: 1 all objects are strs,
\* 2 all are urls, 3 the objects for odd keys are urls and those for even keys strs.
FillKeys(lo, hi, st) == {k \in lo .. hi : (k - lo) % st = 0}
OpFillSet(lo, hi, st, v, mix) ==
               /\ CanMutA /\ ~bl /\ lo \in Keys /\ hi \in Keys /\ lo <= hi /\ st >= 1 /\ mix \in 1 .. 3
               /\ StepA("fill_set", <<lo, hi, st, v, mix>>, Cardinality({k \in FillKeys(lo, hi, st) : a[k] # ABSENT}),
                        [k \in Keys |-> IF k \in FillKeys(lo, hi, st) THEN v ELSE a[k]])
OpRemove(k, c) == LET r == RemRes(a, k) IN
               /\ CanMutA /\ ClsOK(c) /\ StepA("remove", <<k, c>>, r.ret, r.m)          \* the returned pair is the caller's
OpDone      == /\ CanMutA /\ StepA("done", <<>>, TRUE, EmptyMap)         \* C06: empty and reusable

(* queries on A: also while the caller still holds (changed) argument objects or an iterator is alive *)
Anytime       == TRUE
OpGet(k, c)      == /\ Anytime /\ ClsOK(c) /\ StepQ("get", <<k, c>>, Lookup(a, k))
OpHasKey(k, c)   == /\ Plain /\ ClsOK(c) /\ StepQ("has_key", <<k, c>>, Has(a, k))
\* Equal under comp, different in state comp ignores (round 5): the values (g-1)*Shades+1 .. g*Shades form group g; the
\* objects of one group compare EQUAL (regexps with one pattern and different flags, pairs with one key and different
\* values) but are different values.  S: "a key maps to the value most recently set for it" - get, the listings and the
\* iterator report the exact value (SetRes stores v itself, never "an equal one"); only has_value, which is DEFINED by
\* object comparison, cannot tell the members of a group apart.
CmpKey(v) == (v - 1) \div Shades
OpHasValue(v, c) == /\ it = NIL /\ ClsOK(c)
                    /\ StepQ("has_value", <<v, c>>, \E k \in Keys : a[k] # ABSENT /\ CmpKey(a[k]) = CmpKey(v))
OpCount       == /\ Plain /\ StepQ("count", <<>>, Size(a))
\* C: the listing calls append to a caller-supplied destination list and return that same list, or create a list when NULL
\* is passed.  The destination is described by three arguments:
\*   np   - NODEST: NULL is passed;  0..3: the caller passes its own list which already holds np entries with the
\*          distinguishable values 1001, 1002, 1003 (for get_pairs the pairs <<1001,1001>>, ...)
\*   dc   - the LIST class of the caller's list (1 array, 2 linked_list, 3 dlinked_list; 0 with NODEST); it is independent
\*          of the map's class and must not matter
\*   reps - 1: one call;  2: the call is made twice in a row, the second time into the list the first one returned
\* S: prior entries unchanged and in order, followed by the listing in ascending key order (once per call).
NODEST     == -1
PriorCount == 0 .. 3
DestClass  == 1 .. 3
Reps       == 1 .. 2
DestOK(np, dc, reps) == /\ reps \in Reps
                        /\ \/ np = NODEST /\ dc = 0
                           \/ np \in PriorCount /\ dc \in DestClass /\ ~bl      \* model bound: own lists only while no copy is live
Prior(np)      == [i \in 1 .. (IF np = NODEST THEN 0 ELSE np) |-> 1000 + i]
PriorPairs(np) == [i \in 1 .. (IF np = NODEST THEN 0 ELSE np) |-> <<1000 + i, 1000 + i>>]
Listed(prior, l, reps) == prior \o l \o (IF reps = 2 THEN l ELSE <<>>)
OpGetKeys(np, dc, reps)   == /\ Plain /\ DestOK(np, dc, reps)
                             /\ StepQ("get_keys", <<np, dc, reps>>, Listed(Prior(np), KeysAsc(a), reps))
OpGetValues(np, dc, reps) == /\ Plain /\ DestOK(np, dc, reps)
                             /\ StepQ("get_values", <<np, dc, reps>>, Listed(Prior(np), ValsAsc(a), reps))
OpGetPairs(np, dc, reps)  == /\ Plain /\ DestOK(np, dc, reps)
                             /\ StepQ("get_pairs", <<np, dc, reps>>, Listed(PriorPairs(np), PairsAsc(a), reps))

(* iterator over A: yields the pairs in ascending key order *)
OpIterNew     == /\ Plain /\ ~bl /\ Step("iter_new", <<>>, TRUE, a, b, bl, 0, held)
OpIterHasNext == /\ it # NIL /\ StepQ("iter_has_next", <<>>, it < Size(a))
OpIterNext    == /\ it # NIL                                     \* C: next() after exhaustion -> NULL, repeatedly
                 /\ Step("iter_next", <<>>, IF it < Size(a) THEN PairsAsc(a)[it + 1] ELSE NOPAIR,
                         a, b, bl, IF it < Size(a) THEN it + 1 ELSE Size(a) + 1, held)
OpIterDel     == /\ it # NIL /\ Step("iter_del", <<>>, TRUE, a, b, bl, NIL, held)

(* the copy *)
OpDup        == /\ Plain /\ ~bl /\ Step("dup", <<>>, TRUE, a, a, TRUE, it, held)
OpDelB       == /\ Plain /\ bl /\ Step("b_del", <<>>, TRUE, a, EmptyMap, FALSE, it, held)
OpBSet(k, v) == LET r == SetRes(b, k, v) IN
                /\ CanMutB /\ Step("b_set", <<k, v>>, r.replaced, a, r.m, TRUE, it, held)
OpBRemove(k) == LET r == RemRes(b, k) IN
                /\ CanMutB /\ Step("b_remove", <<k>>, r.ret, a, r.m, TRUE, it, held)
OpBGet(k)    == /\ Plain /\ bl /\ StepQ("b_get", <<k>>, Lookup(b, k))
\* swap roles: delete A, keep the copy as the map under test (the copy must be a full citizen)
OpAdopt      == /\ Plain /\ bl /\ Step("adopt", <<>>, TRUE, b, EmptyMap, FALSE, it, held)

Init == a = EmptyMap /\ b = EmptyMap /\ bl = FALSE /\ it = NIL /\ held = 0

Next == \/ \E k \in Keys, v \in Vals : OpBSet(k, v)
        \/ \E k \in Keys, v \in Vals, kc \in Classes, vc \in Classes : OpSet(k, v, kc, vc) \/ OpSetPair(k, v, kc, vc) \/ OpSetKeep(k, v, kc, vc)
        \/ \E k \in Keys, j \in Keys : OpSetFrom(k, j) \/ OpSetComponent(k, j)
        \/ \E j \in Keys : OpSetOwnPair(j) \/ OpRemoveOwnKey(j)
        \/ \E j \in Keys, v \in Vals, vc \in Classes : OpSetOwnKey(j, v, vc)
        \/ \E lo \in Keys, hi \in Keys, st \in 1 .. 2, v \in Vals, mix \in {1, 3} :
               (st = 1 \/ hi - lo >= 2) /\ (mix = 1 \/ v = 1) /\ OpFillSet(lo, hi, st, v, mix)
        \/ \E k \in ProbeKeys : OpBRemove(k) \/ OpBGet(k)
        \/ \E k \in ProbeKeys, c \in Classes : OpRemove(k, c) \/ OpGet(k, c) \/ OpHasKey(k, c)
        \/ \E v \in ProbeVals, c \in Classes : OpHasValue(v, c)
        \/ \E np \in {NODEST} \cup PriorCount, dc \in {0} \cup DestClass, reps \in Reps :
               OpGetKeys(np, dc, reps) \/ OpGetValues(np, dc, reps) \/ OpGetPairs(np, dc, reps)
        \/ OpCallerMutates \/ OpCallerDeletes \/ OpDone \/ OpCount
        \/ OpIterNew \/ OpIterHasNext \/ OpIterNext \/ OpIterDel
        \/ OpDup \/ OpDelB \/ OpAdopt

Spec == Init /\ [][Next]_vars

------------------------------------------------------------------------------------------
(* properties of the reference itself *)
MapT == [Keys -> Vals \cup {ABSENT}]
TypeOK == /\ a \in MapT /\ b \in MapT /\ bl \in BOOLEAN /\ (~bl => b = EmptyMap)
          /\ it \in {NIL} \cup 0 .. (NK + 1) /\ held \in 0 .. 2

\* S: every listing is strictly ascending by key, holds every present key exactly once, and the three listings agree
SortedNoDupOf(m) ==
    LET ks == KeysAsc(m) vs == ValsAsc(m) ps == PairsAsc(m) IN
    /\ \A i \in 1 .. (Len(ks) - 1) : ks[i] < ks[i + 1]
    /\ {ks[i] : i \in 1 .. Len(ks)} = Dom(m) /\ Len(ks) = Size(m)
    /\ Len(vs) = Len(ks) /\ Len(ps) = Len(ks)
    /\ \A i \in 1 .. Len(ks) : ps[i] = <<ks[i], vs[i]>> /\ vs[i] = m[ks[i]]
SortedNoDup == SortedNoDupOf(a) /\ SortedNoDupOf(b)

\* S: a key maps to the value most recently set for it; set reports whether it replaced; nothing else moves
GetAfterSet == \A k \in Keys, v \in Vals :
    LET r == SetRes(a, k, v) IN
    /\ Lookup(r.m, k) = v
    /\ r.replaced = Has(a, k)
    /\ \A j \in ProbeKeys : j # k => Lookup(r.m, j) = Lookup(a, j)
    /\ Size(r.m) = Size(a) + (IF Has(a, k) THEN 0 ELSE 1)

\* S: remove hands back the removed pair exactly once; absent and out-of-range probes change nothing
RemoveOnce == \A k \in ProbeKeys :
    LET r == RemRes(a, k) IN
    /\ (r.ret = NOPAIR) <=> ~Has(a, k)
    /\ Has(a, k) => r.ret = <<k, a[k]>> /\ Size(r.m) = Size(a) - 1
    /\ ~Has(a, k) => r.m = a
    /\ ~Has(r.m, k) /\ RemRes(r.m, k).ret = NOPAIR
    /\ \A j \in ProbeKeys : j # k => Lookup(r.m, j) = Lookup(a, j)

\* the macro step is the iteration of set: checked against SetRes on the whole bounded universe
FillLaw == \A lo \in Keys, hi \in Keys, st \in 1 .. 2, v \in Vals : lo <= hi =>
    LET RECURSIVE It(_, _)
        It(m, k) == IF k > hi THEN m ELSE It(SetRes(m, k, v).m, k + st)
    IN  It(a, lo) = [k \in Keys |-> IF k \in FillKeys(lo, hi, st) THEN v ELSE a[k]]

\* S: overwriting with a value that merely COMPARES equal to the stored one still replaces it
ExactValueLaw == \A k \in Keys, v \in Vals, w \in Vals :
    (CmpKey(v) = CmpKey(w) /\ v # w) => Lookup(SetRes(SetRes(a, k, v).m, k, w).m, k) = w

IterLaw == it # NIL => it <= Size(a) + 1
\* action properties (checked on every generated transition)
\* queries, iterator steps and the caller's dealings with its own objects never change a map
MutatorsOnly == [][ (a' # a \/ (bl /\ bl' /\ b' # b)) => Plain ]_vars
\* C05: an action on one slot leaves the other unchanged while both are alive
SlotsIndependent == [][ (bl /\ bl') => (a' = a \/ b' = b) ]_vars
DupIsEqual == [][ (~bl /\ bl') => (b' = a /\ a' = a) ]_vars
================================================================================
