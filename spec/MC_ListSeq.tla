------------------------------ MODULE MC_ListSeq ------------------------------
(* Bounded model of ListSeq for TLC: index ranges (negative literals cannot be written in a .cfg) *)
(* and the edge emitter: one JSON line per generated transition.                                  *)
EXTENDS ListSeq
IdxQuick    == -5 .. 5
IdxThorough == -6 .. 6
IdxSmall    == -3 .. 3
ObsEmit(op, args, ret, post) ==
    PrintT(ToJson([pre |-> Pre, op |-> op, args |-> args, ret |-> ret, post |-> post]))
================================================================================
