/* Extension X02 (beyond the listed properties): binds spec/ShowFmt.tla to the `show` method of every class.
 * usage: show_replay <alt:0|1> <scriptfile> [first]
 *
 * A script builds ONE object with a small stack machine and shows it:
 *     str|ustr|mbuff|regexp <text>      push a text object             (text: see "text tokens" below)
 *     obj                               push spif_obj_new()
 *     null <class>                      push a NULL object of that class (a placeholder when used as a list element)
 *     pair                              pops value, key -> objpair       url      pops 7 components -> url
 *     tok <ev>                          pops sep, src -> tok (ev=1: spif_tok_eval)
 *     socket                            pops remote, local url -> unopened socket
 *     list <class> <n>                  pops n elements -> array | linked_list | dlinked_list
 *     iter <pos>                        pops a list -> its iterator after <pos> calls of next()
 *     show <name> <indent> <prior|->    = <expected text>      calls show THROUGH THE CLASS TABLE on the top of the stack
 * alt=1 builds the same abstract values through other histories (strings by append, buffers with spare capacity, lists by
 * prepend / emptied lists, url components replaced, tok from a pointer): show is a function of the value, not of the history.
 *
 * The show step:  r = show(self, name, buff, indent) with buff = NULL or a str holding <prior>;
 *   invariants: r != NULL; r == buff when a buffer was passed; r is a well-formed str (strlen == len);
 *               a second call with a NULL buffer produces the same text (purity), and with a prior buffer the result is
 *               prior + that text (append law on the implementation);
 *   return token = the text of r, pointers normalised (0x<9+ hex digits> -> P), capacities normalised (", size <n>" -> ", size S").
 * Heap balance per script (common.h): show must not leak.
 * Before every show step the script id is written to the side file $VH_LAST (see vlib/x_x02.py).
 *
 * Text tokens (no blanks): ' ' -> '_', '\n' -> '|', printable characters as they are except _ | ^ % * ? which, like all other
 * bytes, are %XX; a run of >= 8 equal bytes is ^<byte>*<count>^; the empty text is %e.
 */
#include "common.h"
#include <fcntl.h>

extern spif_iteratorclass_t SPIF_ITERATORCLASS_VAR(array), SPIF_ITERATORCLASS_VAR(linked_list), SPIF_ITERATORCLASS_VAR(dlinked_list);

typedef spif_str_t (*show_fn)(spif_obj_t, spif_charptr_t, spif_str_t, size_t);
typedef struct { spif_obj_t o; spif_obj_t aux; int cls; } ent_t;
#define STK 64
static ent_t stk[STK]; static int sp;
static int alt;
static char invmsg[256];

static const char *CLS[] = {"str", "ustr", "mbuff", "obj", "objpair", "regexp", "url", "tok", "socket", "array", "linked_list",
                            "dlinked_list", "array_iterator", "linked_list_iterator", "dlinked_list_iterator", NULL};
static spif_class_t class_of(int c) {
    switch (c) {
        case 0: return SPIF_CLASS(SPIF_STRCLASS_VAR(str));
        case 1: return SPIF_CLASS(SPIF_STRCLASS_VAR(ustr));
        case 2: return SPIF_CLASS(SPIF_MBUFFCLASS_VAR(mbuff));
        case 3: return SPIF_CLASS_VAR(obj);
        case 4: return SPIF_CLASS_VAR(objpair);
        case 5: return SPIF_CLASS_VAR(regexp);
        case 6: return SPIF_CLASS_VAR(url);
        case 7: return SPIF_CLASS_VAR(tok);
        case 8: return SPIF_CLASS_VAR(socket);
        case 9: return SPIF_CLASS(SPIF_LISTCLASS_VAR(array));
        case 10: return SPIF_CLASS(SPIF_LISTCLASS_VAR(linked_list));
        case 11: return SPIF_CLASS(SPIF_LISTCLASS_VAR(dlinked_list));
        case 12: return SPIF_CLASS(SPIF_ITERATORCLASS_VAR(array));
        case 13: return SPIF_CLASS(SPIF_ITERATORCLASS_VAR(linked_list));
        default: return SPIF_CLASS(SPIF_ITERATORCLASS_VAR(dlinked_list));
    }
}
static int cls_id(const char *s) { int i; for (i = 0; CLS[i]; i++) if (!strcmp(s, CLS[i])) return i; return -1; }

/* ---- text tokens ---------------------------------------------------------------------------------- */
static int hexv(int c) { return c <= '9' ? c - '0' : (c | 32) - 'a' + 10; }
static const char *dec1(const char *p, int *out) {
    if (*p == '%') { *out = hexv(p[1]) * 16 + hexv(p[2]); return p + 3; }
    *out = (*p == '_') ? ' ' : (*p == '|') ? '\n' : (unsigned char) *p;
    return p + 1;
}
/* exact-size heap copy (len bytes + NUL) */
static unsigned char *dec_text(const char *t, size_t *len) {
    size_t n = 0, cap = 64; unsigned char *b = (unsigned char *) malloc(cap), *r; const char *p = t;
    if (!strcmp(t, "%e")) p = "";
    while (*p) {
        int c; long k = 1;
        if (*p == '^') { p = dec1(p + 1, &c); k = strtol(p + 1, (char **) &p, 10); p++; }
        else p = dec1(p, &c);
        if (n + (size_t) k + 1 > cap) { cap = (n + (size_t) k + 1) * 2; b = (unsigned char *) realloc(b, cap); }
        memset(b + n, c, (size_t) k); n += (size_t) k;
    }
    r = (unsigned char *) malloc(n + 1); memcpy(r, b, n); r[n] = 0; free(b);
    if (len) *len = n;
    return r;
}
static void enc1(vh_sb *b, int c) {
    if (c == ' ') sb_putc(b, '_');
    else if (c == '\n') sb_putc(b, '|');
    else if (c > 32 && c < 127 && !strchr("_|^%*?", c)) sb_putc(b, (char) c);
    else sb_printf(b, "%%%02X", c & 255);
}
static void enc_text(vh_sb *b, const unsigned char *s, size_t n) {
    size_t i = 0;
    if (n == 0) { sb_puts(b, "%e"); return; }
    while (i < n) {
        size_t j = i; while (j < n && s[j] == s[i]) j++;
        if (j - i >= 8) { sb_putc(b, '^'); enc1(b, s[i]); sb_printf(b, "*%lu^", (unsigned long) (j - i)); }
        else { size_t q; for (q = i; q < j; q++) enc1(b, s[i]); }
        i = j;
    }
}
/* pointers -> P, capacities -> S; returns a malloc'd NUL-terminated copy */
static unsigned char *normalise(const unsigned char *s, size_t n, size_t *outn) {
    unsigned char *o = (unsigned char *) malloc(n + 1); size_t i = 0, k = 0;
    while (i < n) {
        if (s[i] == '0' && i + 1 < n && s[i + 1] == 'x') {
            size_t j = i + 2; while (j < n && isxdigit(s[j]) && !isupper(s[j])) j++;
            if (j - (i + 2) >= 9) { o[k++] = 'P'; i = j; continue; }
        }
        if (s[i] == ',' && i + 7 < n && !memcmp(s + i, ", size ", 7) && isdigit(s[i + 7])) {
            size_t j = i + 7; while (j < n && isdigit(s[j])) j++;
            memcpy(o + k, ", size S", 8); k += 8; i = j; continue;
        }
        o[k++] = s[i++];
    }
    o[k] = 0; *outn = k;
    return o;
}

/* ---- stack ------------------------------------------------------------------------------------------ */
static void push(spif_obj_t o, int cls, spif_obj_t aux) { stk[sp].o = o; stk[sp].cls = cls; stk[sp].aux = aux; sp++; }
static void vh_begin(void) { sp = 0; }
static void vh_end(void) {
    while (sp > 0) {
        sp--;
        if (!SPIF_OBJ_ISNULL(stk[sp].o)) SPIF_OBJ_DEL(stk[sp].o);
        if (!SPIF_OBJ_ISNULL(stk[sp].aux)) SPIF_OBJ_DEL(stk[sp].aux);
    }
}
static spif_str_t mkstr(const unsigned char *t, size_t n) {
    spif_str_t s;
    if (!alt) return spif_str_new_from_ptr((spif_charptr_t) t);
    s = spif_str_new();
    if (n) spif_str_append_from_ptr(s, (spif_charptr_t) t);
    return s;
}
typedef spif_bool_t (*url_set_fn)(spif_url_t, spif_str_t);
static const url_set_fn URL_SET[7] = {spif_url_set_proto, spif_url_set_user, spif_url_set_passwd, spif_url_set_host,
                                      spif_url_set_port, spif_url_set_path, spif_url_set_query};

static spif_str_t call_show(const ent_t *e, spif_charptr_t name, spif_str_t buff, size_t indent) {
    if (SPIF_OBJ_ISNULL(e->o)) return ((show_fn) class_of(e->cls)->show)((spif_obj_t) NULL, name, buff, indent);
    return ((show_fn) SPIF_OBJ_CALL_METHOD(e->o, show))(e->o, name, buff, indent);     /* through the object's class table */
}

/* Announces the step in the side file $VH_LAST before show runs: an overflow large enough to wreck the caller frames makes
 * AddressSanitizer die inside its own report ("nested bug"), without the death callback that writes the C record. */
static void announce(void) {
    static int fd = -2; char b[96]; int n;
    if (fd == -2) { const char *p = getenv("VH_LAST"); fd = p ? open(p, O_WRONLY | O_CREAT, 0600) : -1; }
    if (fd < 0) return;
    n = snprintf(b, sizeof(b), "%ld %d show      \n", vh_cur_sid, vh_cur_step);
    if (pwrite(fd, b, (size_t) n, 0) < 0) { }
}

#define OP(s) (!strcmp(op, s))
#define NEED(k) do { if (sp < (k)) return "stack_underflow"; } while (0)
static const char *vh_step(const vh_step_t *st, vh_sb *ret, vh_sb *state) {
    const char *op = st->op;
    sb_putc(state, '-');
    if (OP("str") || OP("ustr") || OP("mbuff") || OP("regexp")) {
        size_t n; unsigned char *t = dec_text(st->args[0], &n); spif_obj_t o; int c = cls_id(op);
        if (OP("str")) o = SPIF_OBJ(mkstr(t, n));
        else if (OP("ustr")) o = SPIF_OBJ(spif_ustr_new_from_ptr((spif_charptr_t) t));
        else if (OP("mbuff")) o = SPIF_OBJ(spif_mbuff_new_from_buff((spif_byteptr_t) t, (spif_memidx_t) n, (spif_memidx_t) (n + (alt ? 5 : 0))));
        else o = SPIF_OBJ(spif_regexp_new_from_ptr((spif_charptr_t) t));
        free(t);
        if (SPIF_OBJ_ISNULL(o)) return "constructor_returned_NULL";
        push(o, c, (spif_obj_t) NULL); sb_putc(ret, 'T');
    } else if (OP("obj")) {
        push(spif_obj_new(), 3, (spif_obj_t) NULL); sb_putc(ret, 'T');
    } else if (OP("null")) {
        int c = cls_id(st->args[0]);
        if (c < 0) return "unknown_class";
        push((spif_obj_t) NULL, c, (spif_obj_t) NULL); sb_putc(ret, 'T');
    } else if (OP("pair")) {
        spif_objpair_t p;
        NEED(2);
        p = spif_objpair_new();
        if (!SPIF_OBJ_ISNULL(stk[sp - 2].o)) spif_objpair_set_key(p, stk[sp - 2].o);
        if (!SPIF_OBJ_ISNULL(stk[sp - 1].o)) spif_objpair_set_value(p, stk[sp - 1].o);
        sp -= 2; push(SPIF_OBJ(p), 4, (spif_obj_t) NULL); sb_putc(ret, 'T');
    } else if (OP("url")) {
        spif_url_t u; int i;
        NEED(7);
        u = spif_url_new();
        for (i = 0; i < 7; i++) {
            spif_obj_t c = stk[sp - 7 + i].o;
            if (SPIF_OBJ_ISNULL(c)) continue;
            if (alt) URL_SET[i](u, spif_str_new_from_ptr((spif_charptr_t) "replaced"));
            URL_SET[i](u, SPIF_STR(c));
        }
        sp -= 7; push(SPIF_OBJ(u), 6, (spif_obj_t) NULL); sb_putc(ret, 'T');
    } else if (OP("tok")) {
        spif_tok_t t; spif_obj_t src, sep;
        NEED(2);
        src = stk[sp - 2].o; sep = stk[sp - 1].o;
        if (alt && !SPIF_OBJ_ISNULL(src)) {
            /* (an empty str may be held as (NULL,0,0); tok_eval is not this check's subject, so it gets "" then) */
            t = spif_tok_new_from_ptr(SPIF_STR_STR(SPIF_STR(src)) ? SPIF_STR_STR(SPIF_STR(src)) : (spif_charptr_t) "");
            SPIF_OBJ_DEL(src);
        }
        else { t = spif_tok_new(); if (!SPIF_OBJ_ISNULL(src)) spif_tok_set_src(t, SPIF_STR(src)); }
        if (!SPIF_OBJ_ISNULL(sep)) spif_tok_set_sep(t, SPIF_STR(sep));
        sp -= 2; push(SPIF_OBJ(t), 7, (spif_obj_t) NULL);
        if (vh_int(st->args[0]) && !spif_tok_eval(t)) return "tok_eval_refused";
        sb_putc(ret, 'T');
    } else if (OP("socket")) {
        spif_socket_t s;
        NEED(2);
        s = spif_socket_new_from_urls((spif_url_t) stk[sp - 2].o, (spif_url_t) stk[sp - 1].o);    /* the socket holds copies */
        if (!SPIF_OBJ_ISNULL(stk[sp - 2].o)) SPIF_OBJ_DEL(stk[sp - 2].o);
        if (!SPIF_OBJ_ISNULL(stk[sp - 1].o)) SPIF_OBJ_DEL(stk[sp - 1].o);
        sp -= 2; push(SPIF_OBJ(s), 8, (spif_obj_t) NULL); sb_putc(ret, 'T');
    } else if (OP("list")) {
        int c = cls_id(st->args[0]), n = (int) vh_int(st->args[1]), i, nulls = 0; spif_list_t l; ent_t *e;
        if (c < 9 || c > 11) return "not_a_list_class";
        NEED(n);
        e = &stk[sp - n];
        l = (c == 9) ? SPIF_LIST_NEW(array) : (c == 10) ? SPIF_LIST_NEW(linked_list) : SPIF_LIST_NEW(dlinked_list);
        for (i = 0; i < n; i++) if (SPIF_OBJ_ISNULL(e[i].o)) nulls++;
        if (alt && n == 0) {                                /* an emptied list instead of a fresh one */
            spif_obj_t d = SPIF_OBJ(spif_str_new_from_ptr((spif_charptr_t) "d"));
            SPIF_LIST_APPEND(l, d);
            if (SPIF_LIST_REMOVE_AT(l, 0) != d) return "list_build_remove_at";
            SPIF_OBJ_DEL(d);
        } else if (alt && !nulls) {
            for (i = n - 1; i >= 0; i--) if (!SPIF_LIST_PREPEND(l, e[i].o)) return "list_build_prepend";
        } else {
            for (i = 0; i < n; i++) if (!SPIF_OBJ_ISNULL(e[i].o) && !SPIF_LIST_INSERT_AT(l, e[i].o, i)) return "list_build_insert_at";
            if (n && SPIF_OBJ_ISNULL(e[n - 1].o)) {         /* trailing placeholders: pad behind a sentinel, take the sentinel out */
                spif_obj_t d = SPIF_OBJ(spif_str_new_from_ptr((spif_charptr_t) "d"));
                if (!SPIF_LIST_INSERT_AT(l, d, n)) return "list_build_pad";
                if (SPIF_LIST_REMOVE_AT(l, n) != d) return "list_build_unpad";
                SPIF_OBJ_DEL(d);
            }
        }
        if ((int) SPIF_LIST_COUNT(l) != n) { snprintf(invmsg, sizeof(invmsg), "list_build_count=%d_expected=%d", (int) SPIF_LIST_COUNT(l), n); return invmsg; }
        for (i = 0; i < n; i++) if (SPIF_LIST_GET(l, i) != e[i].o) return "list_build_element_differs";
        sp -= n; push(SPIF_OBJ(l), c, (spif_obj_t) NULL); sb_putc(ret, 'T');
    } else if (OP("iter")) {
        spif_iterator_t it; int pos = (int) vh_int(st->args[0]), i; spif_obj_t l;
        NEED(1);
        if (stk[sp - 1].cls < 9 || stk[sp - 1].cls > 11) return "iter_of_a_non_list";
        l = stk[sp - 1].o;
        it = SPIF_LIST_ITERATOR(l);
        if (SPIF_OBJ_ISNULL(it)) return "iterator=NULL";
        for (i = 0; i < pos; i++) SPIF_ITERATOR_NEXT(it);
        stk[sp - 1].o = SPIF_OBJ(it); stk[sp - 1].aux = l; stk[sp - 1].cls += 3;
        sb_putc(ret, 'T');
    } else if (OP("show")) {
        announce();
        size_t nn, pn = 0, indent = (size_t) strtoul(st->args[1], NULL, 10), g1n, g2n;
        unsigned char *name, *prior = NULL, *g1, *g2; spif_str_t buff = (spif_str_t) NULL, r1, r2; const char *inv = NULL;
        NEED(1);
        name = dec_text(st->args[0], &nn);
        if (strcmp(st->args[2], "-")) { prior = dec_text(st->args[2], &pn); buff = spif_str_new_from_ptr((spif_charptr_t) prior); }
        r1 = call_show(&stk[sp - 1], (spif_charptr_t) name, buff, indent);
        if (SPIF_STR_ISNULL(r1)) { free(name); free(prior); if (buff) spif_str_del(buff); return "show_returned_NULL"; }
        if (buff && r1 != buff) inv = "show_returned_another_buffer";
        else if (!SPIF_STR_STR(r1) || strlen((char *) SPIF_STR_STR(r1)) != (size_t) spif_str_get_len(r1)) inv = "returned_str_len!=strlen";
        g1 = normalise((unsigned char *) (SPIF_STR_STR(r1) ? (char *) SPIF_STR_STR(r1) : ""), SPIF_STR_STR(r1) ? strlen((char *) SPIF_STR_STR(r1)) : 0, &g1n);
        enc_text(ret, g1, g1n);
        /* purity / append law on the implementation: a fresh buffer gives the same text, the prior text stays in front */
        r2 = call_show(&stk[sp - 1], (spif_charptr_t) name, (spif_str_t) NULL, indent);
        if (SPIF_STR_ISNULL(r2)) { if (!inv) inv = "second_show_returned_NULL"; }
        else {
            g2 = normalise((unsigned char *) (SPIF_STR_STR(r2) ? (char *) SPIF_STR_STR(r2) : ""), SPIF_STR_STR(r2) ? strlen((char *) SPIF_STR_STR(r2)) : 0, &g2n);
            if (!inv && (g1n != pn + g2n || memcmp(g1, prior ? (char *) prior : "", pn) || memcmp(g1 + pn, g2, g2n)))
                inv = prior ? "appended_text!=prior+fresh_text" : "second_show_differs";
            free(g2);
            spif_str_del(r2);
        }
        free(g1);
        spif_str_del(r1);
        if (buff && r1 != buff) spif_str_del(buff);
        free(name); free(prior);
        if (inv) return inv;
    } else {
        snprintf(invmsg, sizeof(invmsg), "unknown_op_%s", op);
        return invmsg;
    }
    return NULL;
}

int main(int argc, char **argv) {
    if (argc < 3) { fprintf(stderr, "usage: %s <alt> <scripts> [first]\n", argv[0]); return 2; }
    alt = atoi(argv[1]);
    libast_set_program_name("show_replay");
    libast_set_silent(1);
    return vh_main(argc, argv, 2);
}
